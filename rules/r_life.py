"""State lifecycle rules (C13): R2 con/des mirror and slot type agreement, L1-L3 layout unions,
Y4 %destructor for owning semantic values, Y5 throws through bison's C stack."""
import os, re
from zw import walk, walk_nolambda, unwrap, short, Broken, calls, field_chain, REPO
from cfg import CFG

# chains an op owns but deliberately does not forward in state_con/state_des
CHAIN_EXEMPT = {
    ("op_lex_closure", "m_op"): "the block body runs in the closure's own scon (op_apply::substate builds a fresh scon and a scon_guard over it)",
    ("value_closure", "m_op"): "a value, not an op: executed through op_apply::substate",
}
SCON_ACCESS = ("scon::get<", "scon::con<", "scon::des<", "scon::reset<")


def op_classes(prog):
    out = []
    for q in prog.records:
        if q in ("op", "stringer"):
            continue
        if prog.derives(q, "op") or prog.derives(q, "stringer"):
            out.append(q)
    return sorted(out)


def reservations(prog):
    """class -> [(field, state type, loc)] from constructor initialisers `field {l.reserve <S> ()}`"""
    res = {}
    for f in prog.funcs.values():
        if not f.get("isctor"):
            continue
        for i in f.get("inits", []):
            if not i.get("field"):
                continue
            for c in walk(i.get("init")):
                if c.get("k") == "call" and c.get("f", "").startswith("layout::reserve<") and c.get("targs"):
                    res.setdefault(f["cls"], set()).add((i["field"], c["targs"][0], c["l"]))
    return res


def _loc_field(e):
    """the layout::loc field of `this` passed to scon::get/con/des/reset"""
    u = unwrap(e)
    if isinstance(u, dict) and u.get("k") == "mem" and isinstance(unwrap(u.get("b")), dict) and unwrap(u["b"]).get("k") == "this":
        return u["n"]
    return None


def _chain_of(obj):
    """normalised name of the sub-chain a state_con/state_des/next call is made on"""
    ch = field_chain(obj)
    if ch is None:
        return None
    root, names = ch
    return root, tuple(names)


def _forwarded(prog, f):
    """set of chains on which f (a state_con or state_des method) forwards the same call"""
    want = f["n"]
    out = []
    rvars = {}
    for x in walk(f.get("body")):
        if x.get("k") == "rfor":
            ch = field_chain(x["range"])
            if ch and ch[0] == "this":
                rvars[x["var"]["id"]] = ch[1]
    for c in calls(f.get("body")):
        if c.get("fn") != want or not c.get("fid", "").endswith("(scon &)const"):
            continue
        o = unwrap(c.get("obj"))
        if isinstance(o, dict) and o.get("k") == "this":
            out.append(("base", c.get("cls")))
            continue
        ch = field_chain(c.get("obj"))
        if ch is None:
            raise Broken("%s forwards %s on an expression the rule does not model: %s" % (f["q"], want, short(c.get("obj"))))
        root, names = ch
        if root == "this":
            out.append(("field", tuple(names)))
        elif root.startswith("local:") and int(root.split(":")[1]) in rvars:
            out.append(("field", tuple(rvars[int(root.split(":")[1])]) + ("[*]",) + tuple(names)))
        else:
            raise Broken("%s forwards %s on `%s` (unmodelled)" % (f["q"], want, short(c.get("obj"))))
    return out


def r2(prog):
    inst, findings = [], []
    classes = op_classes(prog)
    res = reservations(prog)
    stateful = [c for c in classes if c in res]
    if len(stateful) < 13:
        raise Broken("only %d state-bearing op classes found (floor 13)" % len(stateful))
    for cls in classes:
        meths = [f for f in prog.funcs.values() if f.get("cls") == cls]
        if not meths:
            continue
        con = [f for f in meths if f["n"] == "state_con"]
        des = [f for f in meths if f["n"] == "state_des"]
        slots = sorted(res.get(cls, []))
        key = "R2:" + cls
        info = {"slots": [(s[0], s[1]) for s in slots]}
        problems = []
        # (a) one con and one des per reserved slot, in state_con / state_des
        for fld, S, loc in slots:
            if not con or not des:
                problems.append("%s reserves state %s in `%s` but does not override both state_con and state_des" % (cls, S, fld))
                continue
            ncon = [c for c in calls(con[0]["body"]) if c.get("f", "").startswith("scon::con<") and _loc_field(c["a"][0]) == fld]
            ndes = [c for c in calls(des[0]["body"]) if c.get("f", "").startswith("scon::des<") and _loc_field(c["a"][0]) == fld]
            srec = prog.records.get(S)
            triv = bool(srec and srec.get("trivdtor"))
            if len(ncon) != 1:
                problems.append("%s::state_con constructs slot `%s` %d times (expected exactly once)" % (cls, fld, len(ncon)))
            if len(ndes) != 1 and not (triv and len(ndes) == 0):
                problems.append("%s::state_des destroys slot `%s` %d times (expected exactly once)" % (cls, fld, len(ndes)))
        # con/des of a slot anywhere else (reset<> is the only other legal form)
        for f in meths:
            for c in calls(f.get("body")):
                fq = c.get("f", "")
                if not fq.startswith(SCON_ACCESS) or not c.get("a"):
                    continue
                fld = _loc_field(c["a"][0])
                if fld is None:
                    continue
                S = [s for s in slots if s[0] == fld]
                T = c["targs"][0] if c.get("targs") else None
                if S:
                    # (b) type agreement
                    if T != S[0][1]:
                        problems.append("%s accesses slot `%s` (reserved for %s) as %s at %s: reads/destroys memory of another type" % (f["q"], fld, S[0][1], T, c["l"]))
                    if fq.startswith(("scon::con<", "scon::des<")) and f["n"] not in ("state_con", "state_des"):
                        problems.append("%s constructs/destroys slot `%s` outside state_con/state_des at %s" % (f["q"], fld, c["l"]))
        # (c) forwarded chains mirror
        if con and des:
            fc = sorted(_forwarded(prog, con[0]))
            fd = sorted(_forwarded(prog, des[0]))
            info["forwards"] = [list(x[1]) if x[0] == "field" else "base:" + str(x[1]) for x in fc]
            if fc != fd:
                problems.append("%s::state_con forwards to %s but state_des forwards to %s: a sub-chain is constructed without being destroyed or vice versa"
                                % (cls, [".".join(x[1]) if x[0] == "field" else "base" for x in fc],
                                   [".".join(x[1]) if x[0] == "field" else "base" for x in fd]))
        elif (con and not des) or (des and not con):
            problems.append("%s overrides only one of state_con/state_des" % cls)
        # (e) state_con/state_des calls outside state_con/state_des: only the adjacent des-then-con reset idiom
        for f in meths:
            if f["n"] in ("state_con", "state_des"):
                continue
            body = f.get("body")
            seq = [c for c in calls(body) if c.get("fn") in ("state_con", "state_des") and c.get("fid", "").endswith("(scon &)const")]
            if not seq:
                continue
            # statements of blocks: look for adjacent pair
            ok_ids = set()
            for b in walk(body):
                if b.get("k") == "block":
                    st = b["s"]
                    for i in range(len(st) - 1):
                        a, d = unwrap(st[i]), unwrap(st[i + 1])
                        if isinstance(a, dict) and isinstance(d, dict) and a.get("k") == "call" and d.get("k") == "call" \
                           and a.get("fn") == "state_des" and d.get("fn") == "state_con" \
                           and field_chain(a.get("obj")) == field_chain(d.get("obj")) and field_chain(a.get("obj")) is not None:
                            ok_ids.add(id(a))
                            ok_ids.add(id(d))
            for c in seq:
                if id(c) not in ok_ids:
                    problems.append("%s calls %s directly at %s (only state_con/state_des, scon_guard, or an adjacent des-then-con reset may do that)" % (f["q"], c["fn"], c["l"]))
        inst.append((key, info))
        for p in problems:
            findings.append({"key": key, "where": "%s" % (meths[0]["l"]), "msg": p, "detail": None})
    return inst, findings


def _owned_chain_fields(prog, cls):
    r = prog.records.get(cls)
    out = []
    if not r:
        return out
    for f in r["fields"]:
        t = f["t"]
        if "std::shared_ptr<op>" in t or "std::shared_ptr<stringer>" in t:
            out.append(f["n"])
    return out


def _forward_sets(prog, cls):
    """fields forwarded by cls's own or inherited state_con"""
    seen = set()
    for c in [cls] + prog.bases(cls):
        con = [f for f in prog.funcs.values() if f.get("cls") == c and f["n"] == "state_con"]
        if con:
            for kind, v in _forwarded(prog, con[0]):
                if kind == "field":
                    seen.add(v[0])
            if not any(k == "base" for k, _ in _forwarded(prog, con[0])):
                break
    return seen


def r2d(prog):
    """every sub-chain an op/pred owns is state-constructed: forwarded in state_con, or run under a scon_guard"""
    inst, findings = [], []
    classes = [q for q in prog.records if q not in ("op", "stringer", "pred") and
               (prog.derives(q, "op") or prog.derives(q, "stringer") or prog.derives(q, "pred"))]
    n = 0
    for cls in sorted(classes):
        own = _owned_chain_fields(prog, cls)
        if not own:
            continue
        fw = _forward_sets(prog, cls) if not prog.derives(cls, "pred") else set()
        meths = [f for f in prog.funcs.values() if f.get("cls") == cls]
        if not meths:
            continue
        for fld in own:
            n += 1
            key = "R2d:%s::%s" % (cls, fld)
            if fld in fw:
                inst.append((key, {"constructed_by": "state_con forwarding"}))
                continue
            if (cls, fld) in CHAIN_EXEMPT:
                inst.append((key, {"exempt": CHAIN_EXEMPT[(cls, fld)]}))
                continue
            guards = []
            direct_next = []
            for f in meths:
                gl = []
                for x in walk(f.get("body")):
                    args = None
                    if x.get("k") == "ctor" and x.get("c") == "scon_guard" and not x.get("cm"):
                        args = x["a"]
                    elif x.get("k") == "call" and x.get("fn") == "emplace" and "scon_guard" in x.get("cls", ""):
                        args = x["a"]
                    if args:
                        for a in args:
                            ch = field_chain(a)
                            if ch and ch[0] == "this" and ch[1][:1] == [fld]:
                                gl.append(x.get("l"))
                    if x.get("k") == "call" and x.get("fn") == "next" and x.get("obj") is not None:
                        ch = field_chain(x["obj"])
                        if ch and ch[0] == "this" and ch[1][:1] == [fld]:
                            direct_next.append((f, x))
                guards += [(f["q"], l) for l in gl]
            gfuncs = {g[0] for g in guards}
            info = {"guards": guards}
            inst.append((key, info))
            if not guards:
                findings.append({"key": key, "where": meths[0]["l"],
                                 "msg": "%s owns sub-chain `%s` but neither forwards state_con/state_des to it nor runs it under a scon_guard: its state would be used unconstructed" % (cls, fld),
                                 "detail": None})
            for f, x in direct_next:
                if f["q"] not in gfuncs:
                    findings.append({"key": key, "where": x["l"],
                                     "msg": "%s calls %s->next() at %s without a scon_guard over that chain in the same function" % (f["q"], fld, x["l"]),
                                     "detail": None})
    if n < 12:
        raise Broken("only %d owned sub-chain fields found (floor 12)" % n)
    return inst, findings


def l123(prog):
    """layout unions: alternatives are laid out on private copies, add_union lists exactly those and dominates the owner's
    construction; guards over one union never overlap lexically"""
    inst, findings = [], []
    be = prog.func_opt("(anonymous namespace)::build_exec")
    if be is None:
        raise Broken("anchor build_exec vanished")
    unions = [c for c in calls(be["body"]) if c.get("f") == "layout::add_union"]
    if len(unions) != 1:
        raise Broken("build_exec has %d add_union calls (1 expected: IFELSE)" % len(unions))
    u = unions[0]
    il = unwrap(u["a"][0])
    # the initializer list argument: {cond_subl, then_subl, else_subl}
    members = []
    for y in walk(u["a"][0]):
        if y.get("k") == "ref" and y.get("d") == "local" and y.get("t", "").replace("&", "").strip() == "layout":
            if y["id"] not in [m["id"] for m in members]:
                members.append(y)
    parent = unwrap(u.get("obj"))
    if not (isinstance(parent, dict) and parent.get("k") == "ref"):
        raise Broken("add_union is not called on a named layout")
    # each member is declared as a copy of the parent layout
    decls = {}
    for x in walk(be["body"]):
        if x.get("k") == "decl":
            for v in x["vars"]:
                decls[v["id"]] = v
    key = "L1:build_exec[IFELSE]"
    problems = []
    for m in members:
        d = decls.get(m["id"])
        i = unwrap(d.get("init")) if d else None
        if not (isinstance(i, dict) and i.get("k") == "ref" and i.get("id") == parent.get("id")):
            problems.append("union member `%s` is not a private copy of the parent layout `%s`" % (m["n"], parent["n"]))
    # layouts used by origins/builds in the same case must all be union members (R4 pairs them), and exactly 3
    if len(members) != 3:
        problems.append("add_union lists %d layouts (cond/then/else expected)" % len(members))
    # between the first copy and add_union the parent layout must not be handed to anything that can reserve in it
    g = CFG(be)
    un_node = [n for n in g.nodes if isinstance(n.ast, dict) and any(y is u for y in walk_nolambda(n.ast))]
    copy_nodes = [n for n in g.nodes if isinstance(n.ast, dict) and n.ast.get("k") == "decl" and any(v["id"] in [m["id"] for m in members] for v in n.ast["vars"])]
    if not un_node or len(copy_nodes) != len(members):
        raise Broken("cannot locate the union construction in build_exec's CFG")
    first = min(copy_nodes, key=lambda n: n.id)
    region = g.reachable(start=first.id, avoid=lambda n: n.id == un_node[0].id)
    for nid in region:
        n = g.nodes[nid]
        if n.id in (first.id, un_node[0].id) or not isinstance(n.ast, dict) or n in copy_nodes:
            continue
        for c in calls(n.ast, lambdas=False):
            for a in ([c.get("obj")] if c.get("obj") is not None else []) + c.get("a", []):
                ua = unwrap(a)
                if isinstance(ua, dict) and ua.get("k") == "ref" and ua.get("id") == parent.get("id") and c is not u:
                    problems.append("parent layout `%s` is used by %s at %s while the alternatives are being laid out: a sibling would overlap that reservation" % (parent["n"], c.get("f") or c.get("fn"), c.get("l")))
    # the owner (make_shared<op_ifelse>(l, ...)) comes after add_union
    owners = [c for c in calls(be["body"]) if c.get("f", "").startswith("std::make_shared<op_ifelse")]
    if len(owners) != 1:
        raise Broken("op_ifelse construction not found")
    on = [n for n in g.nodes if isinstance(n.ast, dict) and any(y is owners[0] for y in walk_nolambda(n.ast))][0]
    if on.id not in g.reachable(start=un_node[0].id):
        problems.append("op_ifelse is constructed before add_union: its own state slot would overlap the alternatives")
    if on.id in g.reachable(avoid=lambda n: n.id == un_node[0].id):
        problems.append("op_ifelse can be constructed on a path that bypasses add_union")
    inst.append((key, {"members": [m["n"] for m in members], "parent": parent["n"]}))
    for p in problems:
        findings.append({"key": key, "where": u["l"], "msg": p, "detail": None})

    # overload_instance: per-alternative layout + add_union after the loop
    oi = [f for f in prog.funcs.values() if f["q"] == "overload_instance::overload_instance" and len(f["params"]) == 2]
    if len(oi) != 1:
        raise Broken("anchor overload_instance constructor vanished")
    f = oi[0]
    key = "L1:overload_instance"
    us = [c for c in calls(f["body"]) if c.get("f") == "layout::add_union"]
    loops = [x for x in walk(f["body"]) if x.get("k") == "rfor"]
    problems = []
    if len(us) != 1 or len(loops) != 1:
        raise Broken("overload_instance constructor has an unmodelled shape")
    if any(y is us[0] for y in walk(loops[0]["body"])):
        problems.append("add_union is called inside the per-overload loop")
    # sub-layout declared inside the loop, origin and builds use it, and it is pushed to the vector handed to add_union
    subl = [v for x in walk(loops[0]["body"]) if x.get("k") == "decl" for v in x["vars"] if v.get("t") == "layout"]
    if len(subl) != 1:
        problems.append("the per-overload loop does not declare exactly one private layout")
    else:
        sid = subl[0]["id"]
        pushed = any(c.get("fn") == "push_back" and any(isinstance(unwrap(a), dict) and unwrap(a).get("id") == sid for a in c["a"]) for c in calls(loops[0]["body"]))
        if not pushed:
            problems.append("the private layout of an overload is not added to the list given to add_union")
        lparam = f["params"][0]["id"]
        for c in calls(loops[0]["body"]):
            if c.get("fn") in ("build_exec", "build_pred") or c.get("f", "").startswith("std::make_shared<op_origin"):
                for a in c["a"]:
                    ua = unwrap(a)
                    if isinstance(ua, dict) and ua.get("k") == "ref" and ua.get("id") == lparam:
                        problems.append("%s at %s lays an overload out in the parent layout instead of its private one" % (c.get("fn"), c["l"]))
    inst.append((key, {"private_layout": subl[0]["n"] if subl else None}))
    for p in problems:
        findings.append({"key": key, "where": f["l"], "msg": p, "detail": None})

    # L3: guards over one union never overlap lexically
    for q, condfield in (("op_ifelse::next", "m_cond_op"), ("overload_op::next", None)):
        f = prog.func_opt(q)
        if f is None:
            raise Broken("anchor %s vanished" % q)
        key = "L3:" + q
        problems = []
        blocks = [b for b in walk(f["body"]) if b.get("k") == "block"]
        local_guards = []
        for b in blocks:
            for st in b["s"]:
                if st.get("k") == "decl":
                    for v in st["vars"]:
                        if v.get("t") == "scon_guard":
                            local_guards.append((b, v))
        emplaces = [c for c in calls(f["body"]) if c.get("fn") == "emplace" and "scon_guard" in c.get("cls", "")]
        if not emplaces:
            raise Broken("%s no longer installs its body guard with optional<scon_guard>::emplace (unmodelled shape)" % q)
        for b, v in local_guards:
            if any(any(y is e for y in walk(b)) for e in emplaces):
                problems.append("the local scon_guard `%s` is still alive where the body guard is emplaced: two states of one union live at once" % v["n"])
        # emplace only when the optional is empty: dominated by a `m_sg == nullopt` test
        g = CFG(f)
        for e in emplaces:
            en = [n for n in g.nodes if isinstance(n.ast, dict) and any(y is e for y in walk_nolambda(n.ast))]
            if not en:
                raise Broken("emplace not found in CFG of %s" % q)

            def empty_true(n, lab):
                """the edge on which the optional body guard is known to be empty: `m_sg == nullopt` true, `m_sg != nullopt`
                false, `(bool) m_sg` / `m_sg.has_value ()` false (the CFG has already split off any `!`)"""
                if n.kind != "cond" or lab not in (True, False) or not isinstance(n.ast, dict):
                    return False
                a = unwrap(n.ast)
                if not isinstance(a, dict):
                    return False
                is_sg = lambda z: isinstance(unwrap(z), dict) and unwrap(z).get("k") == "mem" and unwrap(z)["n"] == "m_sg"
                is_nullopt = lambda z: isinstance(unwrap(z), dict) and ((unwrap(z).get("k") == "ref" and unwrap(z).get("n") == "nullopt") or
                                                                   (unwrap(z).get("k") == "ctor" and "nullopt" in unwrap(z).get("c", "")))
                if a.get("k") == "call" and a.get("op") in ("==", "!=") and len(a.get("a", [])) == 2:
                    x, y = a["a"]
                    if (is_sg(x) and is_nullopt(y)) or (is_sg(y) and is_nullopt(x)):
                        return lab is (a["op"] == "==")
                    return False
                if a.get("k") == "call" and a.get("fn") in ("operator bool", "has_value") and a.get("obj") is not None and is_sg(a["obj"]):
                    return lab is False
                return False
            r = g.reachable(edge_ok=lambda n, t, lab: not empty_true(n, lab))
            if en[0].id in r:
                problems.append("body guard is emplaced at %s on a path where the previous one may still be alive (not dominated by `m_sg == nullopt`)" % e["l"])
        inst.append((key, {"local_guards": len(local_guards), "emplaces": len(emplaces)}))
        for p in problems:
            findings.append({"key": key, "where": f["l"], "msg": p, "detail": None})
    return inst, findings


# ---------------------------------------------------------------------------
# Y4 / Y5: bison's value stack is plain C

def y4(prog):
    inst, findings = [], []
    txt = open(os.path.join(REPO, "libzwerg/parser.yy")).read()
    m = re.search(r"%union\s*\{(.*?)\n\s*\}", txt, re.S)
    if not m:
        raise Broken("%union not found in parser.yy")
    members = {}
    for line in m.group(1).split(";"):
        line = line.strip()
        if not line:
            continue
        mm = re.match(r"(.*?)(\**)\s*(\w+)$", line.replace("\n", " "))
        if not mm:
            raise Broken("cannot parse %%union member `%s`" % line)
        members[mm.group(3)] = (mm.group(1).strip(), bool(mm.group(2)))
    typed = {}
    for tag, syms in re.findall(r"(?m)^%(?:type|token)\s*<(\w+)>\s*(.+)$", txt):
        typed.setdefault(tag, []).extend(syms.split())
    destr = set()
    for body, tags in re.findall(r"(?m)^%destructor\s*\{(.*?)\}\s*((?:<\w+>\s*)+)", txt):
        for t in re.findall(r"<(\w+)>", tags):
            if "delete" in body:
                destr.add(t)
    for tag, (ty, isptr) in sorted(members.items()):
        if not isptr:
            continue
        key = "Y4:<%s>" % tag
        used = typed.get(tag, [])
        inst.append((key, {"type": ty + " *", "symbols": used, "has_destructor": tag in destr}))
        if used and tag not in destr:
            findings.append({"key": key, "where": "libzwerg/parser.yy",
                             "msg": "semantic values of type <%s> (%s *, symbols %s) are owning raw pointers but have no %%destructor: every syntax error leaks whatever is on bison's value stack" % (tag, ty, " ".join(used[:6])),
                             "detail": None})
    if len([1 for t in members.values() if t[1]]) < 3:
        raise Broken("fewer pointer-valued %union members than confirmed by hand (3)")
    return inst, findings


Y5_EXEMPT = {
    ("yylex", "parse_esc_num"): "the octal/hex escape patterns only match digits valid for the base, so the `Invalid escape` throw is unreachable from the scanner",
}


def y5(prog):
    """throws that unwind through the C frames of yyparse/yylex while they own raw pointers"""
    import r_api
    inst, findings = [], []
    mt = r_api.may_throw(prog)
    for fn in ("yylex", "yyparse"):
        f = prog.func_opt(fn)
        if f is None:
            raise Broken("anchor %s vanished" % fn)
        n = 0
        for s in mt.body_sites(f["body"], None):
            if s[0] == "throw":
                # message of the thrown exception
                msg = None
                for x in walk(f["body"]):
                    if x.get("k") == "throw" and x.get("l") == s[1]:
                        for y in walk(x):
                            if y.get("k") == "str":
                                msg = y["v"]
                                break
                key = "Y5:%s:throw:%s" % (fn, (msg or "?")[:40])
                n += 1
                findings.append({"key": key, "where": s[1],
                                 "msg": "%s throws (`%s`) through bison/flex C frames: raw pointers on the parser's value stack and the pending fmtlit are not released" % (fn, msg), "detail": None})
                continue
            c = s[1]
            keys, ext = mt.callee_keys(c)
            thrower = None
            if ext:
                thrower = c.get("f") or c.get("fn")
            else:
                for k in keys:
                    if mt.throws(k):
                        thrower = prog.funcs[k]["q"] if k in prog.funcs else k
                        break
            if thrower is None:
                continue
            # name the site by the function that actually raises: helpers of the scanner/parser file that merely forward to one
            # throwing callee are transparent (extracting `push_subquery (x)` around `parse_subquery (x)` is the same finding)
            def canonical(k, depth=0):
                g = prog.funcs.get(k)
                nm = g["q"] if g else k
                stem = lambda p_: os.path.basename(p_ or "").split(".")[0]        # lexer.cc / lexer.ll, parser.cc / parser.yy
                if g is None or depth > 4 or stem(g.get("file")) != stem(f.get("file")) or g.get("body") is None:
                    return nm
                sites = mt.body_sites(g["body"], g.get("inits"))
                if any(s_[0] == "throw" for s_ in sites):
                    return nm
                cands = set()
                for s_ in sites:
                    if s_[0] != "call":
                        continue
                    ks, ex = mt.callee_keys(s_[1])
                    if ex:
                        return nm
                    for k2 in ks:
                        if mt.throws(k2):
                            cands.add(canonical(k2, depth + 1))
                return cands.pop() if len(cands) == 1 else nm
            if not ext:
                for k in keys:
                    if mt.throws(k):
                        thrower = canonical(k)
                        break
            short_name = thrower.split("::")[-1].split("(")[0]
            if fn == "yyparse" and short_name == "yylex":
                continue      # the scanner's own sites are listed under yylex
            if (fn, short_name) in Y5_EXEMPT:
                inst.append(("Y5:%s:call:%s" % (fn, short_name), {"exempt": Y5_EXEMPT[(fn, short_name)]}))
                continue
            # a helper of the scanner/parser file that raises by itself is the same site as the inline `throw` it was extracted
            # from: name it by the message of the exception, as an inline throw is named
            g = next((prog.funcs[k] for k in keys if k in prog.funcs and prog.funcs[k]["q"] == thrower), None) if not ext else None
            if g is None and not ext:
                g = next((x for x in prog.funcs.values() if x["q"] == thrower and x.get("body") is not None), None)
            stem = lambda p_: os.path.basename(p_ or "").split(".")[0]
            if g is not None and g.get("body") is not None and stem(g.get("file")) == stem(f.get("file")):
                msgs = []
                for x in walk(g["body"]):
                    if x.get("k") == "throw":
                        m_ = next((y["v"] for y in walk(x) if y.get("k") == "str"), None)
                        msgs.append((m_, x.get("l")))
                # only a helper that does nothing but raise (no return statement, last statement is the throw)
                only_throws = not any(x.get("k") == "return" for x in walk(g["body"])) and g["body"].get("k") == "block" and g["body"]["s"] \
                    and (g["body"]["s"][-1].get("k") == "throw" or (g["body"]["s"][-1].get("k") in ("exprstmt",) and False))
                if only_throws and len(msgs) == 1 and all(m_ for m_, _ in msgs):
                    for m_, loc in msgs:
                        key = "Y5:%s:throw:%s" % (fn, m_[:40])
                        if any(x["key"] == key for x in findings):
                            continue
                        n += 1
                        findings.append({"key": key, "where": loc,
                                         "msg": "%s throws (`%s`, in its helper %s) through bison/flex C frames: raw pointers on the parser's value stack and the pending fmtlit are not released" % (fn, m_, short_name), "detail": None})
                    continue
            key = "Y5:%s:call:%s" % (fn, short_name)
            if any(x["key"] == key for x in findings):
                continue
            n += 1
            findings.append({"key": key, "where": c.get("l"),
                             "msg": "%s calls %s, which may throw (%s), through bison/flex C frames: raw pointers on the parser's value stack and the pending fmtlit are not released"
                                    % (fn, short_name, " -> ".join(mt.witness(keys[0])[:2]) if keys else ext), "detail": None})
        inst.append(("Y5:%s" % fn, {"throwing_sites": n}))
    return inst, findings


def l5(prog):
    """A scon_guard keeps a raw pointer to the op graph and a reference to the state area, and its destructor runs state_des through
    both.  Members are destroyed in reverse declaration order, so in every class that holds a guard next to what keeps those alive - a
    state area (`scon`), an owning pointer to ops (shared_ptr/unique_ptr of op or of a closure value) - the guard must be declared
    AFTER them (it is then destroyed first), and its initialiser must refer to those members, not to constructor parameters whose
    ownership is handed on."""
    inst, findings = [], []
    n = 0
    for q, r in sorted(prog.records.items()):
        fl = r.get("fields", [])
        gi = [i for i, f in enumerate(fl) if (f.get("t") or "") in ("scon_guard",) or (f.get("t") or "").endswith("optional<scon_guard>")]
        if not gi or q.startswith("nonstd::"):
            continue
        n += 1
        key = "L5:" + q
        bad = None
        for g in gi:
            for i, f in enumerate(fl):
                t = f.get("t") or ""
                keeps_alive = t == "scon" or t.startswith(("std::shared_ptr<op", "std::unique_ptr<op", "std::shared_ptr<const op", "std::unique_ptr<value_closure", "std::shared_ptr<value_closure"))
                if keeps_alive and i > g:
                    bad = bad or (f.get("l") or r.get("l"), "member `%s` (%s) is declared after the guard `%s`: it is destroyed BEFORE the guard, whose destructor then runs state_des on %s" % (
                        f["n"], t.split(",")[0], fl[g]["n"], "a released state area" if t == "scon" else "ops that may already be freed (use after free when this object held the last reference)"))
        # the guard's initialiser uses members, not parameters that own ops
        for c in prog.funcs.values():
            if c.get("cls") != q or not c.get("inits"):
                continue
            own_params = {p["id"]: p["n"] for p in c.get("params", []) if (p.get("t") or "").startswith(("std::shared_ptr<op", "std::unique_ptr<op", "std::unique_ptr<value_closure"))}
            for i in c["inits"]:
                if i.get("field") in [fl[g]["n"] for g in gi] and isinstance(i.get("init"), dict):
                    for y in walk(i["init"]):
                        if y.get("k") == "ref" and y.get("id") in own_params:
                            bad = bad or (c.get("l"), "the guard `%s` is initialised from the constructor parameter `%s` instead of the member that owns the ops" % (i["field"], own_params[y["id"]]))
        inst.append((key, {"guards": len(gi)}))
        if bad:
            findings.append({"key": key, "where": "libzwerg/" + str(bad[0]), "msg": "%s: %s" % (q, bad[1]), "detail": None})
    if n < 3:
        raise Broken("fewer classes holding a scon_guard than confirmed by hand (3 of 4)")
    return inst, findings


def l6(prog):
    """Values leave the query that made them (zw_result_next, zw_value_clone, zw_stack_push, --a arguments) and outlive it.  A value
    class therefore must OWN (by value, shared_ptr or unique_ptr) every object of the op graph, the layout or another value that it
    keeps: a reference or raw-pointer member to such an object dangles once the query is destroyed.  (Handles of libdw/libdwfl and
    pointers to static descriptors - constant domains, value types, builtins - are not owned by queries and are exempt by type.)"""
    inst, findings = [], []
    values = [q for q in prog.records if "zw_value" in prog.bases(q)]
    if len(values) < 10:
        raise Broken("only %d value classes found (floor 10)" % len(values))
    opgraph = set()
    for q in prog.records:
        bs = [q] + prog.bases(q)
        if any(b in ("op", "pred", "stringer", "op_origin", "stringer_origin", "layout", "scon", "zw_value") for b in bs):
            opgraph.add(q)
    for q in sorted(values):
        key = "L6:" + q
        bad = None
        for fl in prog.records[q].get("fields", []):
            t = (fl.get("t") or "").replace("const ", "").strip()
            if not (t.endswith("&") or t.endswith("*")):
                continue
            target = t.rstrip("&* ").strip()
            if target in opgraph:
                bad = bad or (fl.get("l"), "member `%s` is a %s to %s, which the value does not own" % (fl["n"], "reference" if t.endswith("&") else "raw pointer", target))
        inst.append((key, {"fields": len(prog.records[q].get("fields", []))}))
        if bad:
            findings.append({"key": key, "where": "libzwerg/" + str(bad[0] or prog.records[q].get("l")),
                             "msg": "%s: %s: once the value has left its query (a result kept by the client, an --a argument) and the query is destroyed, applying or "
                                    "comparing the value uses freed objects" % (q, bad[1]), "detail": None})
    return inst, findings
