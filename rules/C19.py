"""C19 command line: K1 (-q silences stdout), K2 (library never writes stdout), K3 (exit codes), Y1."""
import r_cli, r_lex
from common import apply, maybe_mutants, control


def run(prog, rep, tier):
    rep.clause = ("K1: in main()'s CFG every stdout write after the option loop is unreachable once `verbosity` (only ever 0 or -1) is -1; "
                  "K2: no library function references std::cout/stdout/printf-family (positive control under /verif/controls must be found); "
                  "Y1: flex's DFA analysis finds no matchable default (ECHO to stdout) rule; K3: main returns only constants in {0,1,2} and both "
                  "function-level handlers return 2; (that both handlers of the per-input try record the error is decided by K8: main() interpreted with executions that throw a std::exception and something else); K4b: that overload interpreted from source for every "
                  "(-s given?, verbosity, flag before): it sets the flag exactly when verbosity >= 0, independent of -s, and returns std::cerr exactly when -s is absent.")
    rep.clause += (" K8: main() interpreted from source on ~1400 abstract command lines (all combinations of -c -q -s -H -h, 0-3 files openable or not, "
                   "0-2 -a/--a arguments yielding 0-2 values, five execution plans incl. errors before and after results; getopt, the libzwerg C API, "
                   "the argument parsers and the value dumper summarised): exit status, stdout (results in order, `---`, headers, counts, row-major "
                   "order, -H/-h, -q silence) and the driver's diagnostics (-s) equal the documented behaviour.")
    rep.not_decided = ("-f FILE and reading the query from stdin, --help/--version texts, what -c prints for an input whose execution fails half-way "
                       "(undocumented), how values are rendered (C20), -a vs --a equivalence beyond K7.")
    apply(rep, "K1", "-q: no stdout write reachable with verbosity == -1", r_cli.k1(prog), 4)
    apply(rep, "K2", "library never writes to stdout", r_cli.k2(prog), 1)
    control(rep, "K2", r_cli.k2, ["verif_control_writes_cout", "verif_control_printf"])
    apply(rep, "Y1", "scanner has no matchable default rule; <<EOF>> per start condition", r_lex.y1(prog), 4)
    apply(rep, "K3", "exit status constants", r_cli.k3(prog), 10)
    apply(rep, "K4b", "the error is recorded whether or not -s silences its text (error_message interpreted)", r_cli.k4b(prog), 1)
    apply(rep, "K5", "status flags accumulate over all inputs", r_cli.k5(prog), 2)
    apply(rep, "K7", "`-a X` passes X itself as one string value (parse_arg_literal interpreted with the libzwerg API modelled)", r_cli.k7(prog), 1)
    apply(rep, "K9", "query scripts are read sequentially (no seek/tell on input streams: -f - may be a pipe)", r_cli.k9(prog), 1)
    control(rep, "K9", lambda p_: r_cli.k9(p_, driver_only=False), ["K9:verif_control_seeks_script"])
    apply(rep, "K8", "exit status, stdout and the driver's diagnostics for ~1400 abstract command lines (main() interpreted end to end against the documented behaviour)", r_cli.k8(prog, tier), 3)
    maybe_mutants("C19", rep, tier)
