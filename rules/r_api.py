"""API error-discipline rules (C14): B1 capture_errors wrap discipline, B2 no unwinding out of the
entry points without an error parameter (may-throw analysis, lib/effects.py)."""
import os, re
from zw import walk, walk_nolambda, unwrap, short, Broken, calls, REPO, is_null_stack_expr
from cfg import contains_assert
import effects

B2_EXEMPT = {
    "zw_value_aset_at": "documented precondition `IDX shall be smaller than length` (libzwerg-dw.h); the only throw is the standard library's range check of vector::at",
}
B1_EXEMPT = {
    "zw_machine_init": "documented as non-allocating handle: returns the machine code cast to a pointer (no error object because nothing can fail)",
}


def exported(prog):
    mp = os.path.join(REPO, "libzwerg/libzwerg.map")
    names = re.findall(r"^\s+(zw_\w+);", open(mp).read(), re.M)
    if len(names) < 90:
        raise Broken("fewer exported names in libzwerg.map than confirmed by hand (%d)" % len(names))
    out = []
    for n in names:
        fs = prog.by_q.get(n, [])
        if not fs:
            raise Broken("exported function %s has no definition in the analysed units" % n)
        for f in fs:
            out.append(f)
    return names, out


def _err_param(f):
    ps = [p for p in f["params"] if p["t"].replace(" ", "") == "zw_error**"]
    return ps[0] if ps else None


_mt = {}


def may_throw(prog):
    if id(prog) not in _mt:
        _mt[id(prog)] = effects.MayThrow(prog).solve()
    return _mt[id(prog)]


def capture_shape(prog):
    """capture_errors: try { return callback() } with catch(std::exception) and catch(...), both via allocate_error"""
    cs = [f for f in prog.funcs.values() if f["q"].startswith("(anonymous namespace)::capture_errors<")]
    if not cs:
        raise Broken("no instantiation of capture_errors found")
    problems = []
    f = cs[0]
    tries = [x for x in walk_nolambda(f["body"]) if x.get("k") == "try"]
    if len(tries) != 1:
        raise Broken("capture_errors is no longer a single try block (unmodelled shape)")
    t = tries[0]
    types = [h["t"] for h in t["handlers"]]
    if "..." not in types:
        problems.append("capture_errors has no catch (...) handler")
    if not any("std::exception" in ty for ty in types):
        problems.append("capture_errors has no catch (std::exception const &) handler (messages would be lost)")
    for h in t["handlers"]:
        rets = [x for x in walk(h["body"]) if x.get("k") == "return"]
        if not rets or not all(any(c.get("fn") == "allocate_error" for c in calls(r)) for r in rets):
            problems.append("handler catch(%s) of capture_errors does not return through allocate_error" % h["t"])
    ae = [g for g in prog.funcs.values() if g["q"].startswith("(anonymous namespace)::allocate_error<")]
    if not ae:
        raise Broken("allocate_error vanished")
    g = ae[0]
    sets = any(x.get("k") == "asg" and isinstance(x["lhs"], dict) and x["lhs"].get("k") == "un"
               and x["lhs"].get("op") == "*" and isinstance(unwrap(x["lhs"]["e"]), dict) and unwrap(x["lhs"]["e"]).get("d") == "param"
               for x in walk(g["body"]))
    if not sets:
        problems.append("allocate_error no longer stores the error object through out_err")
    return len(cs), problems


def b1(prog):
    inst, findings = [], []
    names, funcs = exported(prog)
    mt = may_throw(prog)
    ncap, probs = capture_shape(prog)
    inst.append(("B1:capture_errors", {"instantiations": ncap}))
    for p in probs:
        findings.append({"key": "B1:capture_errors", "where": "libzwerg/libzwergP.hh", "msg": p, "detail": None})
    ok_funcs = {}

    def check(f, depth=0):
        """returns list of problems for an exported/delegated function with an error parameter"""
        if f["fid"] in ok_funcs:
            return ok_funcs[f["fid"]]
        ok_funcs[f["fid"]] = []
        ep = _err_param(f)
        body = f["body"]
        stmts = body["s"] if body.get("k") == "block" else [body]
        stmts = [s for s in stmts if not contains_assert(s)]
        rets = [s for s in stmts if s.get("k") == "return"]
        problems = []
        if len(rets) != 1 or stmts[-1] is not rets[0]:
            return ["%s does not end in a single return of a capture_errors(...) wrap or a delegation" % f["q"]]
        e = unwrap(rets[0].get("e"))
        while isinstance(e, dict) and e.get("k") == "ctor" and len(e["a"]) == 1:
            e = unwrap(e["a"][0])
        outside = stmts[:-1]
        if isinstance(e, dict) and e.get("k") == "call" and e.get("fn") == "capture_errors":
            lam, fail, oe = e["a"][0], unwrap(e["a"][1]), unwrap(e["a"][2])
            if not (isinstance(oe, dict) and oe.get("k") == "ref" and oe.get("id") == ep["id"]):
                problems.append("%s passes `%s` instead of its own error parameter to capture_errors" % (f["q"], short(oe)))
            failok = isinstance(fail, dict) and (fail.get("k") == "null" or (fail.get("k") == "bool" and fail["v"] is False)
                                                 or (fail.get("k") == "int" and fail["v"] == 0))
            if not failok:
                problems.append("%s uses `%s` as failure sentinel: a failed call would not return NULL/false" % (f["q"], short(fail)))
            lam_u = unwrap(lam)
            if not (isinstance(lam_u, dict) and lam_u.get("k") == "lambda"):
                problems.append("%s does not pass a lambda to capture_errors (unmodelled)" % f["q"])
            else:
                # inside the lambda no return of the failure sentinel without an error (except via an out-parameter protocol)
                for r in walk_nolambda(lam_u["body"]):
                    if r.get("k") == "return" and r.get("e") is not None:
                        re_ = unwrap(r["e"])
                        isnull = isinstance(re_, dict) and (re_.get("k") == "null" or (re_.get("k") == "bool" and re_["v"] is False))
                        if isnull and f["q"] not in B1_SENTINEL_OK:
                            problems.append("%s returns the failure sentinel `%s` from inside the wrap at %s without raising an error: NULL/false without an error object" % (f["q"], short(re_), r["l"]))
        elif isinstance(e, dict) and e.get("k") == "call" and e.get("own") and \
                any(isinstance(unwrap(a), dict) and unwrap(a).get("k") == "ref" and unwrap(a).get("id") == ep["id"] for a in e["a"]):
            callee = prog.funcs.get(e.get("fid"))
            if callee is None or _err_param(callee) is None:
                problems.append("%s delegates to %s, which has no analysable error-parameter discipline" % (f["q"], e.get("f")))
            elif depth < 4:
                problems += check(callee, depth + 1)
            # arguments of the delegation are evaluated outside any wrap
            outside = outside + [a for a in e["a"]]
        else:
            if f["q"] in B1_EXEMPT:
                return []
            problems.append("%s returns `%s`, which is neither a capture_errors wrap nor a delegation with the same error parameter" % (f["q"], short(e)[:60]))
        thr, wit = mt.stmts_may_throw(f["q"], outside)
        if thr:
            problems.append("%s does work outside the capture_errors wrap that may throw across the C boundary: %s" % (f["q"], " -> ".join(wit[:5])))
        ok_funcs[f["fid"]] = problems
        return problems
    n = 0
    for f in funcs:
        if _err_param(f) is None:
            continue
        n += 1
        key = "B1:" + f["q"]
        ps = check(f)
        inst.append((key, {"where": f["l"]}))
        for p in ps:
            findings.append({"key": key, "where": "%s:%s" % (prog.rel(f["file"]), f["l"].split(":")[-1]), "msg": p, "detail": None})
    if n < 25:
        raise Broken("only %d exported functions with an error parameter (floor 25)" % n)
    return inst, findings


# functions whose lambda may return the sentinel as a *successful* answer (documented protocol)
B1_SENTINEL_OK = {
    "zw_result_next": "returns true with *OUT_STK == NULL at the end of results; false only with an error",
}


def b2(prog):
    inst, findings = [], []
    names, funcs = exported(prog)
    mt = may_throw(prog)
    n = 0
    for f in funcs:
        if _err_param(f) is not None:
            continue
        n += 1
        key = "B2:" + f["q"]
        if mt.throws(f["fid"]):
            if f["q"] in B2_EXEMPT:
                inst.append((key, {"exempt": B2_EXEMPT[f["q"]], "witness": mt.witness(f["fid"])[:3]}))
                continue
            findings.append({"key": key, "where": "%s:%s" % (prog.rel(f["file"]), f["l"].split(":")[-1]),
                             "msg": "exported function %s has no error parameter but can throw across the C boundary: %s" % (f["q"], " -> ".join(mt.witness(f["fid"])[:6])),
                             "detail": {"path": mt.witness(f["fid"])}})
        else:
            inst.append((key, {"cannot_unwind": True}))
    inst.append(("B2:model", {"functions_and_lambdas_analysed": len(mt.all_sites), "may_throw": len(mt.cause), "fixpoint_rounds": mt.rounds}))
    if n < 60:
        raise Broken("only %d exported functions without an error parameter (floor 60)" % n)
    return inst, findings


def t1(prog):
    """an exception object that is constructed but not thrown is an error path that reports nothing"""
    inst, findings = [], []
    n = 0
    for f in prog.funcs.values():
        rel = prog.rel(f["file"])
        if not (rel.startswith("libzwerg/") or rel.startswith("dwgrep/")) or "/test-" in rel:
            continue
        for b in walk(f.get("body")):
            if b.get("k") != "block":
                stmts = []
                if b.get("k") in ("case", "default", "label") and isinstance(b.get("sub"), dict):
                    stmts = [b["sub"]]
                elif b.get("k") == "if":
                    stmts = [b.get("then"), b.get("else")]
                elif b.get("k") in ("while", "for", "do", "rfor"):
                    stmts = [b.get("body")]
            else:
                stmts = b["s"]
            for st in stmts:
                if not isinstance(st, dict):
                    continue
                u = st
                while isinstance(u, dict) and u.get("k") == "ctor" and u.get("cm") and len(u["a"]) == 1:
                    u = u["a"][0]
                if isinstance(u, dict) and u.get("k") == "ctor" and (u.get("c", "").endswith(("_error", "exception")) or
                                                                    any(x.endswith(("std::exception", "_error")) for x in prog.bases(u.get("c", "")))):
                    n += 1
                    findings.append({"key": "T1:%s:%s" % (f["q"], u.get("c")), "where": u.get("l") or f["l"],
                                     "msg": "%s constructs a %s and discards it (missing `throw`): the failure it describes is not reported and execution continues" % (f["q"], u.get("c")),
                                     "detail": None})
    total = sum(1 for f in prog.funcs.values() for x in walk(f.get("body")) if x.get("k") == "throw")
    inst.append(("T1:throw-sites", {"throw_expressions": total, "discarded_exception_objects": n}))
    if total < 20:
        raise Broken("fewer throw expressions than confirmed by hand (20): %d" % total)
    return inst, findings


def b3(prog):
    """parse_subquery hands out the tree only when yyparse reported success; every other outcome throws"""
    from cfg import CFG
    inst, findings = [], []
    fs = [f for f in prog.by_q.get("parse_subquery", []) if any(c.get("fn") == "yyparse" for c in calls(f["body"]))]
    if len(fs) != 1:
        raise Broken("anchor parse_subquery (the caller of yyparse) vanished")
    f = fs[0]
    g = CFG(f)

    def mentions_yyparse(e):
        return isinstance(e, dict) and any(c.get("fn") == "yyparse" for c in calls(e))
    # variables holding the result
    resvars = set()
    for x in walk(f["body"]):
        if x.get("k") == "decl":
            for v in x["vars"]:
                if mentions_yyparse(v.get("init")):
                    resvars.add(v["id"])

    def is_result(e):
        u = unwrap(e)
        return mentions_yyparse(e) or (isinstance(u, dict) and u.get("k") == "ref" and u.get("id") in resvars)

    def success_edge(n, lab):
        if n.kind == "cond" and isinstance(n.ast, dict):
            c = n.ast
            if c.get("k") == "bin" and c.get("op") in ("==", "!=") and (is_result(c["lhs"]) or is_result(c["rhs"])):
                other = c["rhs"] if is_result(c["lhs"]) else c["lhs"]
                z = unwrap(other)
                if isinstance(z, dict) and z.get("k") == "int" and z["v"] == 0:
                    return lab is (c["op"] == "==")
            if is_result(c):
                return lab is False
        if n.kind == "switch" and is_result(n.ast):
            if isinstance(lab, tuple) and lab[0] == "case":
                return lab[1] == 0
            if lab in ("default", "nomatch"):
                listed = {l[1] for _, l in n.succs if isinstance(l, tuple) and l[0] == "case"}
                return 0 not in listed and listed >= {1, 2}
        return False
    succ_nodes = [n for n in g.nodes if n.kind in ("cond", "switch") and (is_result(n.ast) if n.kind == "switch" else any(success_edge(n, l) for _, l in n.succs))]
    if not succ_nodes:
        raise Broken("parse_subquery no longer tests the result of yyparse in a recognisable way")
    # fall-through between case groups is already in the CFG: returns reachable without taking a success edge are violations
    reach = g.reachable(edge_ok=lambda n, t, lab: not success_edge(n, lab))
    bad = [n for n in g.nodes if n.id in reach and n.kind == "ret"]
    falls = any(t == g.exit.id and n.kind not in ("ret",) for n in g.nodes if n.id in reach for t, _ in n.succs)
    key = "B3:parse_subquery"
    inst.append((key, {"returns_without_success": [n.loc for n in bad]}))
    if bad or falls:
        findings.append({"key": key, "where": (bad[0].loc if bad else f["l"]),
                         "msg": "parse_subquery can return the parse tree although yyparse did not report success (a failed parse leaves the tree pointer null: crash instead of an error object)",
                         "detail": None})
    return inst, findings


# ---------------------------------------------------------------------------
# B4: recursion through the parser is depth-bounded

def b4(prog):
    """Nesting written with brackets is bounded by bison's own stack limit (YYMAXDEPTH), but a format-string splice re-enters
    the parser through the scanner: yyparse -> yylex -> parse_subquery -> yyparse.  Every call-graph cycle through yyparse must
    contain a depth guard (a counter compared with a constant on a path to a throw, incremented on the way in), otherwise the
    length of the query alone decides whether the C stack overflows."""
    inst, findings = [], []
    funcs = prog.funcs
    yp = [fid for fid, f in funcs.items() if f["n"] == "yyparse" and f.get("body") is not None]
    if len(yp) != 1:
        raise Broken("anchor yyparse vanished")
    graph = {}
    for fid, f in funcs.items():
        if f.get("body") is None:
            continue
        graph[fid] = {c.get("fid") for c in calls(f["body"]) if c.get("fid") in funcs}
    # functions on a cycle through yyparse: reachable from it and reaching it
    def reach(start, g):
        seen, st = set(), [start]
        while st:
            x = st.pop()
            for y in g.get(x, ()):
                if y not in seen:
                    seen.add(y)
                    st.append(y)
        return seen
    rev = {}
    for a, bs in graph.items():
        for b in bs:
            rev.setdefault(b, set()).add(a)
    cyc = reach(yp[0], graph) & reach(yp[0], rev)
    key = "B4:yyparse-recursion"
    if not cyc:
        inst.append((key, {"cycle": None}))
        return inst, findings
    names = sorted(funcs[x]["q"] for x in cyc)
    # depth guard: in a function of the cycle (or a local class of one), a static-storage or member counter compared with a constant
    # where a throw is reachable, and incremented somewhere in the same group
    group = [funcs[x] for x in cyc if funcs[x]["n"] not in ("yyparse", "yylex")]
    group += [f for f in funcs.values() if f.get("body") is not None and any(f["q"].startswith(g["q"] + "(") or f["q"].startswith(g["q"] + "::") for g in group)]
    guard = None
    for f in group:
        body = f["body"]
        incs = set()
        for x in walk(body):
            if x.get("k") == "un" and x.get("op") == "++" or (x.get("k") == "asg" and x.get("op") in ("+=", "=")):
                t = unwrap(x.get("e") if x.get("k") == "un" else x.get("lhs"))
                if isinstance(t, dict) and t.get("k") == "ref" and t.get("d") in ("slocal", "global"):
                    incs.add(t.get("id"))
        cmps = set()
        for x in walk(body):
            if x.get("k") == "if" and any(y.get("k") == "throw" for y in walk(x.get("then"))):
                for y in walk(x["c"]):
                    if y.get("k") == "bin" and y.get("op") in (">", ">=", "==", "<", "<="):
                        for a, b in ((y["lhs"], y["rhs"]), (y["rhs"], y["lhs"])):
                            ua, ub = unwrap(a), unwrap(b)
                            if isinstance(ua, dict) and ua.get("k") == "ref" and ua.get("d") in ("slocal", "global") and isinstance(ub, dict) and (ub.get("k") == "int" or "iv" in ub):
                                cmps.add(ua.get("id"))
        if incs & cmps:
            guard = f["q"]
        # the increment may live in the constructor of a local guard class: look at the whole group
    if guard is None:
        all_incs, all_cmps = set(), set()
        for f in group:
            for x in walk(f["body"]):
                if (x.get("k") == "un" and x.get("op") == "++") or (x.get("k") == "asg" and x.get("op") in ("+=",)):
                    t = unwrap(x.get("e") if x.get("k") == "un" else x.get("lhs"))
                    if isinstance(t, dict) and t.get("k") == "ref" and t.get("d") in ("slocal", "global"):
                        all_incs.add(t.get("q") or t.get("n"))
                if x.get("k") == "if" and any(y.get("k") == "throw" for y in walk(x.get("then"))):
                    for y in walk(x["c"]):
                        if y.get("k") == "bin" and y.get("op") in (">", ">=", "==", "<", "<="):
                            for a, b in ((y["lhs"], y["rhs"]), (y["rhs"], y["lhs"])):
                                ua, ub = unwrap(a), unwrap(b)
                                if isinstance(ua, dict) and ua.get("k") == "ref" and ua.get("d") in ("slocal", "global") and isinstance(ub, dict) and (ub.get("k") == "int" or "iv" in ub):
                                    all_cmps.add(ua.get("q") or ua.get("n"))
        if all_incs & all_cmps:
            guard = "guard class"
    inst.append((key, {"cycle": names, "depth_guard_in": guard}))
    if guard is None:
        findings.append({"key": key, "where": "libzwerg/parser.yy",
                         "msg": "the parser re-enters itself through %s without any bound on the depth: a query of a few thousand nested format-string "
                                "splices (`\"%%( \"%%( ... %%)\" %%)\"`, 24 KB for 3000 levels) overflows the C stack and zw_query_parse* crashes instead of returning an error"
                                % " -> ".join(n for n in names if n not in ("yylex",)) , "detail": None})
    return inst, findings


# ---------------------------------------------------------------------------
# B5: a null error pointer goes only to callees that cannot report an error

def b5(prog):
    """allocate_error () / capture_errors () store through the zw_error ** they are given.  Inside the library a few calls pass
    nullptr for that parameter, relying on the callee never failing; the rule checks that reliance: no function that can reach
    allocate_error/capture_errors with one of its own zw_error ** parameters is ever called with a null literal in that position."""
    inst, findings = [], []
    funcs = prog.funcs
    memo = {}

    def is_errpp(t):
        return (t or "").replace(" ", "").replace("struct", "") in ("zw_error**",)

    def reports(fid, idx, depth=0):
        key = (fid, idx)
        if key in memo:
            return memo[key]
        memo[key] = None
        f = funcs.get(fid)
        if f is None or f.get("body") is None or depth > 5:
            return None
        pid = f["params"][idx]["id"] if idx < len(f["params"]) else None
        why = None
        for c in calls(f["body"]):
            for j, a in enumerate(c.get("a", [])):
                u = unwrap(a)
                if not (isinstance(u, dict) and u.get("k") == "ref" and u.get("id") == pid):
                    continue
                if c.get("fn") in ("allocate_error", "capture_errors"):
                    why = "%s stores an error through it at %s" % (f["q"], c.get("l"))
                elif c.get("fid") in funcs:
                    r = reports(c["fid"], j, depth + 1)
                    if r:
                        why = "%s passes it on at %s; %s" % (f["q"], c.get("l"), r)
            if why:
                break
        memo[key] = why
        return why
    n = 0
    for f in funcs.values():
        if not prog.rel(f["file"]).startswith("libzwerg/") or f.get("body") is None:
            continue
        for c in calls(f["body"]):
            callee = funcs.get(c.get("fid"))
            if callee is None:
                continue
            for j, (p, a) in enumerate(zip(callee["params"], c.get("a", []))):
                if not is_errpp(p.get("t")):
                    continue
                u = unwrap(a)
                if not (isinstance(u, dict) and u.get("k") == "null"):
                    continue
                n += 1
                key = "B5:%s->%s" % (f["q"], callee["q"])
                why = reports(callee["fid"], j)
                inst.append((key, {"call": c.get("l"), "callee_can_report": bool(why)}))
                if why:
                    findings.append({"key": key, "where": "libzwerg/" + (c.get("l") or f["l"]),
                                     "msg": "%s calls %s with a null error pointer, but %s: the error object would be written through NULL (crash instead of an error return)" % (f["q"], callee["q"], why),
                                     "detail": None})
    inst.append(("B5:null-error-pointer-calls", {"sites": n}))
    if n < 1:
        raise Broken("no internal call with a null error pointer found (the rule's anchor, zw_value_dwarf_machine -> zw_machine_init, vanished)")
    return inst, findings


def b6(prog):
    """The error slot of the C API is output-only: `zw_error **out_err` need not point at an initialised pointer (the header's own example
    passes the address of an uninitialised `zw_error *`).  In every library function that has such a parameter, `*out_err` may only be
    assigned: it is never read, compared, passed on by value or destroyed."""
    from zw import walk_nolambda
    inst, findings = [], []
    n = 0
    for f in sorted(prog.funcs.values(), key=lambda f: f["fid"]):
        if f.get("body") is None:
            continue
        rel = prog.rel(f.get("file", ""))
        if not rel.startswith("libzwerg/"):
            continue
        ps = {p["id"]: p["n"] for p in f.get("params", []) if (p.get("t") or "").replace(" ", "") in ("zw_error**", "zw_error**const")}
        if not ps:
            continue
        n += 1
        key = "B6:" + f["q"]
        bad = None

        def is_deref_of_param(e):
            while isinstance(e, dict) and e.get("k") in ("cast", "paren") and isinstance(e.get("e"), dict):
                e = e["e"]
            return isinstance(e, dict) and e.get("k") == "un" and e.get("op") == "*" and isinstance(e.get("e"), dict) and \
                e["e"].get("k") in ("ref", "cast") and any(y.get("k") == "ref" and y.get("id") in ps for y in walk_nolambda(e["e"]))
        assigned_nodes = set()
        for x in walk_nolambda(f["body"]):
            if x.get("k") == "asg" and x.get("op") == "=" and is_deref_of_param(x.get("lhs")):
                assigned_nodes.add(id(x["lhs"]))
                u = x["lhs"]
                while isinstance(u, dict) and u.get("k") in ("cast", "paren"):
                    u = u["e"]
                assigned_nodes.add(id(u))
        for x in walk_nolambda(f["body"]):
            if is_deref_of_param(x) and id(x) not in assigned_nodes and x.get("k") == "un":
                bad = bad or x.get("l") or f["l"]
        inst.append((key, {"slot_parameters": len(ps)}))
        if bad:
            findings.append({"key": key, "where": "libzwerg/" + str(bad),
                             "msg": "%s reads `*%s`: the error slot is output-only and may hold garbage or a pointer the client has already released when the call is made, "
                                    "so the read (compare, destroy, pass on) acts on an invalid pointer" % (f["q"], list(ps.values())[0]), "detail": None})
    if n < 3:
        raise Broken("fewer functions with an error-slot parameter than confirmed by hand (3)")
    return inst, findings


def b7(prog):
    """A failed downcast is never dereferenced.  In every library function, a variable initialised from std::dynamic_pointer_cast or a
    pointer dynamic_cast (null when the object is of another class - and which class it is depends on what the caller passed through the
    API) may be dereferenced (`->`, unary `*`) only on paths on which it was tested: the CFG is walked from the function's entry following, at every test
    of the variable (`p == nullptr`, `p != nullptr`, `p`, `!p`), only the edge on which it is null; a dereference reached that way is a
    crash for some input.  assert() is not a test (release builds compile it out).  The expected number of findings is zero and the
    number of downcasts may legitimately drop to zero, so the rule has a compiled positive control instead of a floor."""
    from cfg import CFG, contains_assert
    from zw import walk_nolambda, unwrap
    inst, findings = [], []

    def is_downcast(e):
        e = unwrap(e)
        while isinstance(e, dict) and e.get("k") == "ctor" and len(e.get("a", [])) == 1:
            e = unwrap(e["a"][0])
        if not isinstance(e, dict):
            return False
        if e.get("k") == "call" and (e.get("f") or "").startswith(("std::dynamic_pointer_cast<", "dynamic_pointer_cast<")):
            return True
        return e.get("k") == "cast" and e.get("ck") == "dynamic" and str(e.get("t", "")).rstrip().endswith("*")

    def refs(e, vid):
        return isinstance(e, dict) and any(y.get("k") == "ref" and y.get("id") == vid for y in walk_nolambda(e))

    def is_var(e, vid):
        e = unwrap(e)
        return isinstance(e, dict) and e.get("k") == "ref" and e.get("id") == vid

    def derefs(e, vid):
        for y in walk_nolambda(e):
            k = y.get("k")
            if k == "call" and y.get("fn") in ("operator->", "operator*") and ((y.get("obj") is not None and is_var(y["obj"], vid)) or (y.get("a") and is_var(y["a"][0], vid))):
                return True
            if k == "mem" and y.get("arrow") and is_var(y.get("b"), vid):
                return True
            if k == "call" and y.get("arrow") and y.get("obj") is not None and is_var(y["obj"], vid):
                return True
            if k == "un" and y.get("op") == "*" and is_var(y.get("e"), vid):
                return True
        return False

    def from_assert(e):
        """the expression is (part of) the expansion of the assert macro"""
        return any("assert" in (y.get("macs") or []) for y in walk_nolambda(e))

    def null_edge(c, vid):
        """label of the edge of the atomic condition `c` on which the variable is null; None if `c` is no test of it"""
        c = unwrap(c)
        if not isinstance(c, dict):
            return None
        if is_var(c, vid):
            return False
        if c.get("k") == "call" and c.get("fn") == "operator bool" and ((c.get("obj") is not None and is_var(c["obj"], vid)) or (c.get("a") and is_var(c["a"][0], vid))):
            return False
        ops = None
        if c.get("k") == "bin" and c.get("op") in ("==", "!="):
            ops = (c["op"], c.get("lhs"), c.get("rhs"))
        elif c.get("k") == "call" and c.get("op") in ("==", "!=") and len(c.get("a", [])) == 2:
            ops = (c["op"], c["a"][0], c["a"][1])
        if ops:
            op, l, r = ops
            isnull = lambda x: isinstance(unwrap(x), dict) and (unwrap(x).get("k") == "null" or (unwrap(x).get("k") == "int" and unwrap(x).get("v") == 0))
            if (is_var(l, vid) and isnull(r)) or (is_var(r, vid) and isnull(l)):
                return op == "=="
        return None
    for f in sorted(prog.funcs.values(), key=lambda f: f["fid"]):
        if f.get("body") is None:
            continue
        rel = prog.rel(f.get("file", ""))
        if not rel.startswith(("libzwerg/", "controls/")) or "/test" in rel or rel.endswith("gendoc.cc"):
            continue
        casts = []
        for d in walk_nolambda(f["body"]):
            if d.get("k") == "decl":
                for v in d.get("vars", []):
                    if v.get("init") is not None and is_downcast(v["init"]):
                        casts.append(v)
        if not casts:
            continue
        g = CFG(f)
        # bool locals that record a test: `bool const ok = p != nullptr && q != nullptr;` - ok true implies p is not null
        flags = {}
        for d in walk_nolambda(f["body"]):
            if d.get("k") == "decl":
                for bv in d.get("vars", []):
                    if str(bv.get("t", "")).replace("const ", "").strip() == "bool" and bv.get("init") is not None:
                        flags[bv["id"]] = bv["init"]

        def conjuncts(e, op):
            e = unwrap(e)
            if isinstance(e, dict) and e.get("k") == "bin" and e.get("op") == op:
                return conjuncts(e["lhs"], op) + conjuncts(e["rhs"], op)
            return [e]
        for v in casts:
            vid = v["id"]
            key = "B7:%s:%s" % (f["q"], v["n"])

            def flag_null_edge(c, vid=vid):
                """a condition on a bool local that was computed from a test of the variable: the edge on which the variable may be null"""
                c = unwrap(c)
                if not (isinstance(c, dict) and c.get("k") == "ref" and c.get("id") in flags):
                    return None
                init = flags[c["id"]]
                if any(null_edge(x, vid) is False for x in conjuncts(init, "&&")):
                    return False          # flag true => every conjunct true => not null; null only when the flag is false
                if any(null_edge(x, vid) is True for x in conjuncts(init, "||")):
                    return True           # flag false => every disjunct false => not null; null only when the flag is true
                return None

            def edge_ok(n, t, lab, vid=vid):
                if n.kind != "cond" or not isinstance(n.ast, dict) or contains_assert(n.ast) or from_assert(n.ast):
                    return True
                ne = null_edge(n.ast, vid)
                if ne is None:
                    ne = flag_null_edge(n.ast)
                return ne is None or lab == ne        # follow only the paths on which the variable may still be null
            reach = g.reachable(edge_ok=edge_ok)
            bad = [n for n in g.nodes if n.id in reach and isinstance(n.ast, dict) and not contains_assert(n.ast) and derefs(n.ast, vid)]
            inst.append((key, {"dereferences_checked": sum(1 for n in g.nodes if isinstance(n.ast, dict) and derefs(n.ast, vid))}))
            if bad:
                findings.append({"key": key, "where": "libzwerg/" + str(bad[0].loc or f["l"]),
                                 "msg": "%s dereferences `%s`, the result of a dynamic downcast, on a path on which it was never tested for null (an assert is compiled out of release builds): "
                                        "when the object is of another class - e.g. the same vocabulary added twice through zw_vocabulary_add - the library crashes instead of reporting an error" % (f["q"], v["n"]),
                                 "detail": None})
    return inst, findings
