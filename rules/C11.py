"""C11 core words (dispatch clauses): P1 result numbering, P2 stack profile maintenance, P3 unsupported operand, R5 (numbering across inputs)."""
import r_core, r_stream
from common import apply, maybe_mutants


def run(prog, rep, tier):
    rep.clause = ("P2: every member function of `stack` that grows/shrinks m_values also writes m_profile (overload dispatch depends only on the "
                  "values near the top of the stack), with the encoding facts selector::W == 4, 8-bit type codes, 32-bit profile; P2b: the bodies of stack::push/pop/drop, interpreted by the finite-domain evaluator on every "
                  "stack of depth <= W+2 (W+3) over 2 (3) type codes and every run of pops/drops from it, leave m_profile equal to the encoding of "
                  "the top W value types; P1: every "
                  "value_producer (21) numbers the values it yields with a post-incremented member counter that every constructor initialises to 0 "
                  "and that is changed nowhere else in next(), or with literal 0; R5: counters used for numbering inside ops are reset per input "
                  "(each operation numbers its results afresh); P3: an operand of an unsupported type makes overload_op print a diagnostic on stderr "
                  "and yield nothing, and makes a predicate word answer `fail`; R7: in next() of every word op (overload dispatch, once/yielding "
                  "overload adapters, shuffles, pos/type, the radix casts) every CFG path from the success edge of an upstream pull to a `no stack` return "
                  "passes another pull: no result for one input never ends the stream for the following inputs.")
    rep.not_decided = "what the words compute (string and sequence algebra, embedded NUL, needles longer than haystacks, radix conversion)."
    apply(rep, "P1", "results are numbered from a zero-initialised counter", r_core.p1(prog), 18)
    apply(rep, "P1c", "computed results are fresh values; only shuffling words re-push operands", r_core.p1c(prog), 15)
    apply(rep, "P1d", "overload implementations construct their result: no `operate` returns one of its operands", r_core.p1d(prog), 20)
    apply(rep, "P2", "stack mutators maintain the type profile", r_core.p2(prog), 5)
    apply(rep, "P2b", "profile == types of the top W values after every push/pop/drop (abstract evaluation)", r_core.p2b(prog, tier), 2)
    apply(rep, "P4", "overload selection matches exactly the top n value types (abstract evaluation of selector)", r_core.p4(prog, tier), 1)
    apply(rep, "P2c", "stack accessors are guarded exactly", r_core.p2c(prog), 5)
    apply(rep, "P3", "unsupported operand: diagnostic and no result", r_core.p3(prog), 3)
    r5 = r_stream.r5(prog)
    apply(rep, "R5", "numbering counters of ops are reset per input", ([i for i in r5[0] if "m_pos" in i[0]], [f for f in r5[1] if "m_pos" in f["key"]]), 1)
    rep.notes.append("sibling deviation (not a verdict): elem_loclist_producer numbers by element index `idx` in both directions; C17 does not fix the numbering of relem on location lists")
    apply(rep, "P5", "string words agree with the byte-string model incl. empty operands, embedded NUL, bytes >= 0x80 (source evaluation)", r_core.p5(prog, tier), 9)
    apply(rep, "P6", "sequence words agree with the list model incl. empty operands and needles longer than haystacks (source evaluation)", r_core.p6(prog, tier), 9)
    apply(rep, "P7", "dup/over/swap/rot/drop realise the before/after table of their documentation, copies are clones, the type profile follows (source evaluation)", r_core.p7(prog), 5)
    r7 = r_stream.r7(prog)
    words = ("R7:op_overload<", "R7:op_once_overload<", "R7:op_yielding_overload<", "R7:overload_op::", "R7:op_dup::", "R7:op_over::", "R7:op_swap::",
             "R7:op_rot::", "R7:op_drop::", "R7:op_pos::", "R7:op_type::", "R7:(anonymous namespace)::op_cast::")
    apply(rep, "R7", "a word that produces no result for one input (unsupported operand, failed conversion) goes on to the next input instead of ending the stream",
          ([i for i in r7[0] if i[0].startswith(words)], [f for f in r7[1] if f["key"].startswith(words)]), 60)
    import r_pure
    q = r_pure.q1(prog)
    apply(rep, "Q1", "word implementations keep no state of their own: no mutable members, no writes to static-storage variables (incl. function-local statics), no parameter-dependent local statics - a word's result depends only on its operands, not on what was evaluated before",
          ([i for i in q[0] if i[0].startswith(("Q1i:", "Q1ii", "Q1iii"))], [f for f in q[1] if f["key"].startswith(("Q1i:", "Q1ii", "Q1iii"))]), 3)
    apply(rep, "Q4c", "copies of a sequence (dup, over, reading a name) never alias storage that `add` mutates in place: word results depend on the values, not on how the stack was built", r_pure.q4c(prog), 3)
    import r_core as _rc8
    apply(rep, "P8", "copies keep their position: clone () of every value class interpreted with marker fields", _rc8.p8(prog), 10)
    maybe_mutants("C11", rep, tier)
