"""Builder rules by abstract evaluation of build.cc (used by C01/R4 and by S1).

build_exec / build_pred are interpreted from their source, one switch case at a time, on a symbolic tree: nested
build_exec/build_pred calls return a symbolic Chain recording the layout, upstream (origin), bindings and uprefs they
were given; make_shared/make_unique return a symbolic Made recording class and arguments; layouts, scopes and uprefs
are objects with identity.  File-local helpers, renamed locals, reordered statements and aggregates carrying
(origin, chain) pairs are therefore transparent: only what is finally constructed from what counts."""
from zw import Broken, unwrap
from cxxobj import CxxEvaluator, Obj, Vec, Sym, OutOfBounds
from absint import Thrown

SUBX_KINDS = ["PRED_SUBX_ANY", "CAPTURE", "SUBX_EVAL", "CLOSE_STAR", "CLOSE_PLUS", "IFELSE", "ALT", "OR", "FORMAT", "BLOCK"]
ARITY = {"IFELSE": 3, "ALT": 2, "OR": 2}


class Layout:
    n = 0

    def __init__(self, parent=None):
        Layout.n += 1
        self.id, self.parent = Layout.n, parent

    @property
    def addr(self):
        return id(self)

    def copy_value(self):
        return Layout(self)

    def __repr__(self):
        return "layout#%d" % self.id


class Scope:
    def __init__(self, parent, fresh=True):
        self.parent, self.fresh = parent, fresh

    @property
    def addr(self):
        return id(self)

    def copy_value(self):
        return self


class Made:
    def __init__(self, cls, args, loc):
        self.cls, self.args, self.loc, self.calls = cls, args, loc, []

    @property
    def addr(self):
        return id(self)

    def copy_value(self):
        return self

    def __repr__(self):
        return "%s@%s" % (self.cls, self.loc)


class Chain:
    def __init__(self, tree, layout, upstream, bn, up, loc, pred=False):
        self.tree, self.layout, self.upstream, self.bn, self.up, self.loc, self.pred = tree, layout, upstream, bn, up, loc, pred

    @property
    def addr(self):
        return id(self)

    def copy_value(self):
        return self

    def __repr__(self):
        return "chain@%s" % self.loc


class BuildEval(CxxEvaluator):
    def __init__(self, prog):
        self.trace = {"made": [], "chains": [], "unions": []}
        hooks = {
            "ctor:layout": lambda ev, o, a: a[0].copy_value() if a and isinstance(a[0], Layout) else Layout(),
            "ctor:bindings": lambda ev, o, a: Scope(a[0] if a and isinstance(a[0], Scope) else None),
            "ctor:uprefs": lambda ev, o, a: Obj("uprefs"),
            "uprefs::refd_ids": lambda ev, o, a: Vec([], "map"),
            "layout::add_union": lambda ev, o, a: self.trace["unions"].append((o, a[0])),
            "op_apply::reserve_rendezvous": lambda ev, o, a: Sym.of("rdv"),
            "tree::cst": lambda ev, o, a: o.m_cst,
            "tree::str": lambda ev, o, a: Sym.of("tree.str"),
            "bindings::find": lambda ev, o, a: self.found,
            "uprefs::find": lambda ev, o, a: self.found_up,
            "binding::is_builtin": lambda ev, o, a: o.builtin,
            "upref::is_builtin": lambda ev, o, a: o.builtin,
            "ctor:std::basic_string<char>": lambda ev, o, a: Sym.of("string"),
        }
        CxxEvaluator.__init__(self, hooks, {}, prog=prog)
        self.found = self.found_up = None

    def eval(self, e, env, this):
        if isinstance(e, dict) and e.get("k") == "call":
            f = e.get("f", "")
            if f.startswith(("std::make_shared<", "std::make_unique<")) and e.get("targs"):
                m = Made(e["targs"][0], [self.eval(a, env, this) for a in e.get("a", [])], e.get("l"))
                self.trace["made"].append(m)
                return m
            if e.get("fn") in ("build_exec", "build_pred") and e.get("own") and f.startswith("(anonymous namespace)::"):
                args = [self.eval(a, env, this) for a in e["a"]]
                if e["fn"] == "build_exec":
                    t, l, rdv, upstream, bn, up = args
                    c = Chain(t, l, upstream, bn, up, e.get("l"))
                else:
                    t, l, rdv, bn, up = args
                    c = Chain(t, l, None, bn, up, e.get("l"), pred=True)
                self.trace["chains"].append(c)
                return c
            if e.get("obj") is not None and e.get("own") and e.get("fn") not in ("operator->", "operator*"):
                o = self.eval(e["obj"], env, this)
                if isinstance(o, Made):
                    args = [self.eval(a, env, this) for a in e.get("a", [])]
                    o.calls.append((e["fn"], args, e.get("l")))
                    return Sym.of("result-of-" + e["fn"])
                if isinstance(o, (Chain, Sym)) and e.get("fid") not in (self.prog.funcs if self.prog else {}):
                    return Sym.of("result-of-" + str(e.get("fn")))
        return CxxEvaluator.eval(self, e, env, this)


def mkconst(n):
    """an interpreted `constant` holding the unsigned number n"""
    c = Obj("constant")
    v = Obj("mpz_class")
    v.m_u = v.m_i = n
    v.m_sign = ("enum", "unsign", 0)
    c.m_value, c.m_dom, c.m_brv = v, Sym.of("dec_constant_dom"), ("enum", "full", 0)
    return c


def mktree(tt, kind, nchildren, child="NOP", wrap=False, keep=1):
    def leaf(k):
        t = Obj("tree")
        t.m_tt = ("enum", k, tt[k])
        t.m_children = Vec([], "children")
        t.m_str, t.m_cst, t.m_builtin = Sym.of("str"), mkconst(keep), Sym.of("builtin")
        return t

    def kid():
        c = leaf(child)
        c.m_children = Vec([leaf("NOP") for _ in range(ARITY.get(child, 1))], "children")
        if wrap:
            s_ = leaf("SCOPE")
            s_.m_children = Vec([c], "children")
            return s_
        return c
    t = leaf(kind)
    if kind == "FORMAT":
        t.m_children = Vec([leaf("STR"), kid(), leaf("STR"), kid()], "children")
    else:
        t.m_children = Vec([kid() for _ in range(nchildren)], "children")
    return t


_cache = {}


class Binding:
    def __init__(self, builtin):
        self.builtin = builtin

    @property
    def addr(self):
        return id(self)


def variants(tt):
    """(child kind, wrapped in SCOPE, what name lookups find, values kept by SUBX_EVAL)"""
    out = []
    for child in sorted(tt):
        if child.startswith("PRED_"):
            continue
        for wrap in (False, True):
            finds = (None, False, True) if child == "READ" else (None,)
            for found in finds:
                for keep in (0, 1, 2):
                    out.append((child, wrap, found, keep))
    return out


def evaluate_all(prog):
    """[(kind, variant, run)]: build_exec/build_pred interpreted on a node of every sub-expression kind with every kind of child
    (bare and SCOPE-wrapped), every outcome of a name lookup (unbound / variable / builtin) and 0, 1, 2 kept values"""
    key = (id(prog), "all")
    if key in _cache:
        return _cache[key]
    from r_scope import tree_types
    tt = tree_types(prog)
    be = prog.func_opt("(anonymous namespace)::build_exec")
    bp = prog.func_opt("(anonymous namespace)::build_pred")
    if be is None or bp is None:
        raise Broken("anchor build_exec/build_pred vanished")
    out = []
    for kind in SUBX_KINDS:
        for var in variants(tt):
            child, wrap, found, keep = var
            if kind != "SUBX_EVAL" and keep != 1:
                continue
            ev = BuildEval(prog)
            ev.found = None if found is None else Binding(found)
            ev.found_up = None
            L0, BN0, UP0, US0 = Layout(), Scope(None, fresh=False), Obj("uprefs"), Sym.of("upstream")
            t = mktree(tt, kind, ARITY.get(kind, 1), child, wrap, keep)
            try:
                if kind == "PRED_SUBX_ANY":
                    res = ev.call(bp, None, [t, L0, Sym.of("rdv0"), BN0, UP0])
                else:
                    res = ev.call(be, None, [t, L0, Sym.of("rdv0"), US0, BN0, UP0])
            except (OutOfBounds, Thrown) as x:
                raise Broken("abstract evaluation of build_exec on a %s node with a %s child fails: %s" % (kind, child, x))
            out.append((kind, var, {"trace": ev.trace, "result": res, "L0": L0, "BN0": BN0, "UP0": UP0, "upstream": US0, "tree": t}))
    _cache[key] = out
    return out


def evaluate(prog):
    """kind -> one representative run (child NOP, unwrapped)"""
    return {kind: r for kind, var, r in evaluate_all(prog) if var == ("NOP", False, None, 1)}


PURE_PUSH = ("CONST", "STR", "EMPTY_LIST")


def a7(prog):
    """C04: every sub-expression context evaluates its operand on a stream of its own (an origin or ALT tine created for it), never on
    the incoming stack itself.  Allowed exception, decided per child kind: a SUBX_EVAL keeping exactly one value whose operand is
    (after SCOPE) a pure push (literal), for which evaluating in place is indistinguishable."""
    inst, findings = [], []
    seen = set()
    n = 0
    for kind, (child, wrap, found, keep), r in evaluate_all(prog):
        for c in r["trace"]["chains"]:
            n += 1
            key = "A7:%s" % kind
            own_stream = isinstance(c.upstream, Made) and c.upstream.cls in ("op_origin", "op_tine")
            if own_stream or c.pred:
                continue
            if c.upstream is r["upstream"] and kind == "SUBX_EVAL" and keep == 1 and child in PURE_PUSH:
                continue
            if key in seen:
                continue
            seen.add(key)
            findings.append({"key": key, "where": "libzwerg/" + (c.loc or "build.cc"),
                             "msg": "build_exec builds the operand of a %s node directly on the incoming stream when the operand is %s%s%s (keeping %d value(s)): the "
                                    "operand then runs on the surrounding stack itself instead of a copy, so whatever it pops or applies (e.g. a block held by a "
                                    "variable) is lost to the rest of the expression" % (kind, "a SCOPE around " if wrap else "", child,
                                                                                         {None: "", False: " of a bound variable", True: " of a builtin"}[found] if child == "READ" else "", keep),
                             "detail": None})
    for kind in SUBX_KINDS:
        inst.append(("A7:%s" % kind, {"operand_chains_examined": n}))
    return inst, findings


def flatten(v, depth=0):
    """symbolic objects reachable from a value (through aggregates and lists)"""
    if depth > 4:
        return
    if isinstance(v, (Made, Chain, Layout, Scope)):
        yield v
    elif isinstance(v, (list, tuple)):
        for x in v:
            yield from flatten(x, depth + 1)
    elif isinstance(v, Vec):
        for x in v.items:
            yield from flatten(x, depth + 1)
    elif hasattr(v, "fields") and callable(getattr(v, "fields")):
        for x in v.fields().values():
            yield from flatten(x, depth + 1)
    elif isinstance(v, Obj):
        for x in v._fields().values():
            yield from flatten(x, depth + 1)


def scope_opened(prog):
    """kind -> (does the builder give every sub-expression of the kind a fresh bindings scope, [locations that do not])"""
    res = {}
    for kind, var, r in evaluate_all(prog):
        chains = r["trace"]["chains"]
        if not chains:
            continue
        bad = list(res.get(kind, (True, []))[1])
        for c in chains:
            fresh = isinstance(c.bn, Scope) and c.bn.fresh and c.bn is not r["BN0"]
            if not fresh and c.loc not in bad:
                bad.append(c.loc)
        res[kind] = (not bad, bad)
    return res


def r4(prog):
    """origin / chain / layout pairing, from the constructed objects"""
    inst, findings = [], []
    n = 0
    for kind, var, r in evaluate_all(prog):
        tr = r["trace"]
        origins = [m for m in tr["made"] if m.cls in ("op_origin", "op_tine")]
        consumers = []            # (description, receiver or None, args, loc)
        for m in tr["made"]:
            consumers.append((m.cls, None, m.args, m.loc))
            for fn, args, loc in m.calls:
                consumers.append(("%s::%s" % (m.cls, fn), m, args, loc))
        rep_variant = var == ("NOP", False, None, 1)
        for ci, c in enumerate(tr["chains"]):
            if c.pred:
                continue
            key = "R4:%s:operand#%d" % (kind, ci)
            o = c.upstream
            n += 1
            probs = []
            if not (isinstance(o, Made) and o.cls in ("op_origin", "op_tine")):
                # a chain continuing the caller's own upstream (CAT, SCOPE-like): nothing to pair
                if o is r["upstream"]:
                    if rep_variant:
                        inst.append((key, {"kind": kind, "upstream": "caller's"}))
                    continue
                probs.append("the sub-expression chain built at %s is not fed by an origin created for it (%r)" % (c.loc, o))
            else:
                if o.cls == "op_origin":
                    ol = o.args[0] if o.args else None
                    if ol is not c.layout:
                        probs.append("origin created at %s reserves its state in %r but its chain (built at %s) is laid out in %r" % (o.loc, ol, c.loc, c.layout))
                feeds = [d for d in tr["chains"] if d.upstream is o]
                if len(feeds) != 1:
                    probs.append("origin created at %s feeds %d chains (expected exactly 1)" % (o.loc, len(feeds)))
                users = [u for u in consumers if any(x is c for a in u[2] for x in flatten(a))]
                if len(users) != 1:
                    probs.append("the chain built at %s is handed to %d constructors/registrations (expected exactly 1)" % (c.loc, len(users)))
                for name, recv, args, loc in users:
                    objs = [x for a in args for x in flatten(a)]
                    if o.cls == "op_origin":
                        if not any(x is o for x in objs):
                            others = [x for x in objs if isinstance(x, Made) and x.cls == "op_origin"]
                            probs.append("%s at %s receives the chain built at %s together with %s instead of the origin that feeds it (created at %s)"
                                         % (name, loc, c.loc, ("origin created at %s" % others[0].loc) if others else "no origin", o.loc))
                        else:
                            # positional pairing: the origin argument immediately preceding the chain
                            flat = [x for a in args for x in (list(flatten(a)) or [None])]
                            for i, x in enumerate(flat):
                                if x is c and i > 0 and isinstance(flat[i - 1], Made) and flat[i - 1].cls == "op_origin" and flat[i - 1] is not o:
                                    probs.append("%s at %s pairs the chain built at %s with the origin created at %s (its own origin was created at %s)"
                                                 % (name, loc, c.loc, flat[i - 1].loc, o.loc))
                    else:
                        merge = o.args[0] if o.args else None
                        if recv is not merge:
                            probs.append("the branch fed by the tine created at %s is registered with %r, not with the merge the tine belongs to" % (o.loc, recv))
            if rep_variant:
                inst.append((key, {"kind": kind, "origin": getattr(o, "loc", None), "chain": c.loc}))
            for p in probs:
                findings.append({"key": key, "where": "libzwerg/" + (c.loc or "build.cc"), "msg": p, "detail": None})
        # stringer origin of FORMAT
        for m in tr["made"]:
            if m.cls == "stringer_origin":
                n += 1
                key = "R4:%s:stringer_origin" % kind
                users = [u for u in tr["made"] if u.cls == "op_format" and any(x is m for a in u.args for x in flatten(a))]
                ok = len(users) == 1 and users[0].args and users[0].args[0] is (m.args[0] if m.args else None)
                if rep_variant:
                    inst.append((key, {"format_users": len(users)}))
                if not ok:
                    findings.append({"key": key, "where": "libzwerg/" + (m.loc or "build.cc"),
                                     "msg": "the stringer origin created at %s is not handed to exactly one op_format built on the same layout" % m.loc, "detail": None})
    # one instance / finding per site (the variants repeat them)
    seen_i, seen_f = set(), set()
    inst = [i for i in inst if not (i[0] in seen_i or seen_i.add(i[0]))]
    findings = [f for f in findings if not ((f["key"], f["msg"]) in seen_f or seen_f.add((f["key"], f["msg"])))]
    return inst, findings


def s6(prog):
    """a name that is both bound in the enclosing scope chain and visible as an up-reference of the enclosing block resolves to the
    binding (inner binders shadow outer ones): build_exec interpreted for READ and for the free names of a BLOCK under every
    combination of "the scope chain has it" / "the enclosing block's up-references have it"."""
    from r_scope import tree_types
    from cxxobj import StdStr
    inst, findings = [], []
    tt = tree_types(prog)
    be = prog.func_opt("(anonymous namespace)::build_exec")
    if be is None:
        raise Broken("anchor build_exec vanished")

    class Upref:
        def __init__(self):
            self.builtin = False
            self.addr = id(self)
    for kind in ("READ", "BLOCK"):
        key = "S6:" + kind
        bad = None
        for has_bn, has_up in ((True, True), (True, False), (False, True)):
            ev = BuildEval(prog)
            ev.found = Binding(False) if has_bn else None
            ev.found_up = Upref() if has_up else None
            ev.hooks["uprefs::refd_ids"] = lambda ev_, o, a: Vec([(0, StdStr(b"A"))], "map")
            ev.hooks["binding::get_bind"] = lambda ev_, o, a: Sym.of("the-binding")
            ev.hooks["upref::get_id"] = lambda ev_, o, a: 7
            ev.hooks["ctor:std::basic_string<char>"] = lambda ev_, o, a: a[0] if a else StdStr(b"")
            L0, BN0, UP0, US0 = Layout(), Scope(None, fresh=False), Obj("uprefs"), Sym.of("upstream")
            t = mktree(tt, kind, 1)
            t.m_str = StdStr(b"A")
            try:
                ev.call(be, None, [t, L0, Sym.of("rdv0"), US0, BN0, UP0])
            except (OutOfBounds, Thrown) as x:
                raise Broken("build_exec on a %s node cannot be evaluated: %s" % (kind, x))
            reads = [m.cls for m in ev.trace["made"] if m.cls in ("op_read", "op_upread")]
            want = ["op_read"] if has_bn else ["op_upread"]
            if reads != want and bad is None:
                bad = "with the name bound in the scope chain: %s, visible as up-reference of the enclosing block: %s, build_exec emits %s for %s; expected %s" % (
                    has_bn, has_up, reads, "a read of the name" if kind == "READ" else "the capture of a free name of a nested block", want)
        inst.append((key, {"combinations": 3}))
        if bad:
            findings.append({"key": key, "where": "libzwerg/" + be["l"],
                             "msg": bad + ": a nested block would capture the outer binding instead of the textually enclosing one (inner binders must shadow outer ones)", "detail": None})
    return inst, findings


def s7(prog):
    """one up-reference table per block: build_exec/build_pred interpreted on a node of every tree kind; every nested build_exec /
    build_pred call must be handed the very table of the enclosing block (by reference) - up-value ids are allocated in it lazily at the
    first read, and the BLOCK case later captures exactly the ids recorded in it - except that the body of a BLOCK gets the new table
    created from (enclosing bindings, enclosing table).  A copy (by-value parameter, local copy) makes ids allocated below it invisible
    to the capture."""
    from r_scope import tree_types
    inst, findings = [], []
    tt = tree_types(prog)
    be = prog.func_opt("(anonymous namespace)::build_exec")
    bp = prog.func_opt("(anonymous namespace)::build_pred")
    if be is None or bp is None:
        raise Broken("anchor build_exec/build_pred vanished")
    n_kinds = n_chains = 0
    for kind in sorted(tt):
        ev = BuildEval(prog)
        made_up = []

        def mk_up(ev_, o, a, made_up=made_up):
            u = Obj("uprefs")
            u.origin = ("inner", a[1]) if len(a) == 2 else (("copy", a[0]) if len(a) == 1 else ("fresh", None))
            made_up.append(u)
            return u
        ev.hooks["ctor:uprefs"] = mk_up
        ev.found = Binding(False)
        ev.found_up = None
        L0, BN0, UP0, US0 = Layout(), Scope(None, fresh=False), Obj("uprefs"), Sym.of("upstream")
        t = mktree(tt, kind, ARITY.get(kind, 3 if kind == "IFELSE" else 2), "NOP", False, 1)
        try:
            if kind.startswith("PRED_"):
                ev.call(bp, None, [t, L0, Sym.of("rdv0"), BN0, UP0])
            else:
                ev.call(be, None, [t, L0, Sym.of("rdv0"), US0, BN0, UP0])
        except (OutOfBounds, Thrown, Broken):
            continue          # kinds that cannot be built from a bare node (builtins, leaves that need payload): no nested calls to examine
        chains = ev.trace["chains"]
        if not chains:
            continue
        n_kinds += 1
        key = "S7:" + kind
        bad = None
        for c in chains:
            n_chains += 1
            if c.up is UP0:
                continue
            org = getattr(c.up, "origin", None)
            if kind == "BLOCK" and org and org[0] == "inner" and org[1] is UP0:
                continue
            bad = bad or (c.loc, "a copy of the enclosing table" if org and org[0] == "copy" else "a different table")
        inst.append((key, {"nested_builds": len(chains)}))
        if bad:
            findings.append({"key": key, "where": "libzwerg/" + str(bad[0] or be["l"]),
                             "msg": "building a %s node hands its sub-expression %s instead of the block's own up-reference table: an outer name first read below this node gets an "
                                    "up-value id that the enclosing block never records, so the block captures too few values or two names share one slot" % (kind, bad[1]),
                             "detail": None})
    if n_kinds < 12:
        raise Broken("S7 could interpret only %d tree kinds with nested builds (floor 12)" % n_kinds)
    return inst, findings
