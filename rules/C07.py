"""C07 attribute decoding (dispatch clauses): F1 unknown means error, F3/F4/F5 dispatch tables agree with DWARF 5, E1 no libdw error dropped."""
import r_dw
from common import apply, maybe_mutants


def run(prog, rep, tier):
    rep.clause = ("F1: the form dispatch (at_value) and the attribute dispatch (handle_at_dependent_value) have no value-yielding `default` and end in "
                  "a throw; an unknown base-type encoding throws; F3: each DW_FORM case label (44, by evaluated value joined with dwarf.h) reaches "
                  "the decoder of its DWARF 5 class (string/reference/signed/unsigned/address/flag/location/ranges/attribute-dependent) or reports "
                  "it; F5: DW_ATE_* -> signed/unsigned/bool; F4: the 13 enumerated attributes are rendered in the constant family DWARF assigns them "
                  "(joined with the writer tables' prefixes); E1: each of the 82 calls to a fallible libdw/libdwfl/libelf function has its result "
                  "compared, tested, returned or stored before use (two exemption rows with reasons); F7: signedness of an enumeration constant from the forms of "
                  "*all* enumerators (handle_at_dependent_value interpreted on abstract type graphs with mixed-form enumerators); G2/G3: `@AT_x` and `attribute ... value` decode an "
                  "attribute in the DIE (hence unit: file table, ranges base, references) it was read from, on abstract DIE graphs with one- and two-hop "
                  "specification/abstract_origin chains; X1: operand table of location operations against DWARF 5 (see C17).")
    rep.not_decided = ("the decoded values themselves (bytes of strings, target of references, boundary values, signedness taken from the type "
                       "chain at run time), and vendor attributes in DW_AT_lo_user..hi_user, which the code deliberately decodes as unsigned.")
    rep.assumptions.append("DWARF 5 tables 7.5/7.6 (form classes) and 7.11 (base type encodings) as transcribed in rules/r_dw.py")
    apply(rep, "F1", "unknown form/attribute/encoding is an error", r_dw.f1(prog), 3)
    apply(rep, "F3", "form/encoding/enumerated-attribute dispatch agrees with DWARF 5", r_dw.f3(prog), 60)
    apply(rep, "E1", "no libdw error result is dropped", r_dw.e1(prog), 50)
    import r_pure
    q = r_pure.q1(prog)
    apply(rep, "Q1", "attribute decoding keeps no process-level cache (no static-storage variable written in the decoders)",
          ([i for i in q[0] if i[0].startswith(("Q1ii", "Q1iii"))], [f for f in q[1] if f["key"].startswith(("Q1ii", "Q1iii"))]), 2)
    g = r_dw.g2(prog)
    apply(rep, "G2", "`@AT_x` decodes an integrated attribute in the DIE that carries it",
          ([i for i in g[0] if i[0].endswith(":owner")], [f for f in g[1] if f["key"].endswith(":owner")]), 1)
    g = r_dw.g3(prog, tier)
    apply(rep, "G3", "`attribute ... value` decodes every attribute in the DIE it was read from", g, 1)
    import r_tables
    apply(rep, "X1", "location operations are reported with the operands DWARF 5 gives their opcode", r_tables.x1(prog), 150)
    apply(rep, "F7", "signedness and domain of DW_AT_const_value follow the DIE's type chain; DW_AT_decl_file / DW_AT_call_file resolve the index stored in the attribute itself in the file table of the DIE's own unit (handle_at_dependent_value interpreted on abstract type graphs and on inlined-subroutine DIEs of two units)", r_dw.f7(prog, tier), 3)
    apply(rep, "F8", "block-form constants of 1/2/4/8 bytes are decoded as the data form of that size (handle_encoding_block interpreted)", r_dw.f8(prog), 1)
    import r_pure as _rp
    apply(rep, "Q5", "libdw's sticky error indicator is never used to decide without being cleared first (CFG must-pass-through)", _rp.q5(prog), 2)
    apply(rep, "F9", "a fixed-width datum decoded as signed is the two's-complement number of the form's own width, whether libdw hands it back zero- or sign-extended (fix_dwarf_formsdata interpreted with typed integers at every boundary value)", r_dw.f9(prog), 1)
    maybe_mutants("C07", rep, tier)
