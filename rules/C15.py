"""C15 notation (clauses): N1 format directives are their documented expansions, N2 infix is the documented ?(let ...) tree, S1 E? vs (E,) scoping."""
import r_lex, r_scope
from common import apply, maybe_mutants


def run(prog, rep, tier):
    rep.clause = ("N1: each `%X stands for %( BODY %)` row of doc/syntax.rst (5) is implemented by the scanner as push_child(parse_subquery(BODY)) - "
                  "the implementation IS the expansion; N2: parse_op builds ASSERT(PRED_SUBX_ANY(SCOPE(SUBX_EVAL<1>(a) BIND ~a~ SUBX_EVAL<1>(b) BIND ~b~ "
                  "READ ~a~ READ ~b~ READ op))) with identical reserved names at bind and read; S1: ALT children (so both `E?` and `(E,)`) get a scope "
                  "of their own; N3: the bison actions of `E?`, `E*`, `E+`, if-then-else interpreted on an operand of every tree kind: `E?` is exactly "
                  "ALT(E's alternatives..., NOP) i.e. `(E,)`; closures wrap SCOPE(E) and only reuse a closure directly beneath them "
                  "((F+)* = F*, (F*)+ = F*); if-then-else is IFELSE of three SCOPEs.")
    rep.not_decided = ("simplifier transparency, whitespace/comment placement, escape sequences vs bytes, string continuation, `if` vs its expansion, "
                       "`?(E)` vs `([E] != [])`: these equate results of two programs for all inputs (other families).")
    apply(rep, "N1", "format directives are their documented expansions", r_lex.n1(prog), 5)
    apply(rep, "N2", "infix operators are the documented ?(let..) tree", r_lex.n2(prog), 1)
    apply(rep, "N3", "`E?`, `E*`, `E+` and if-then-else build their documented trees for every kind of operand (grammar actions interpreted from source)", r_lex.n3(prog), 4)
    import r_tables
    apply(rep, "U1", "the simplifier's erase-remove drops the whole removed tail", r_tables.u1(prog), 1)
    apply(rep, "Y2", "every %( ... %) splice of a literal is scanned from the same initial state as the directive forms", r_lex.y2(prog), 2)
    s1 = r_scope.s1(prog)
    apply(rep, "S1", "ALT/OR/sub-expression contexts are scoped uniformly", (s1[0], s1[1]), 10)
    maybe_mutants("C15", rep, tier)
