"""C15 notation (clauses): N1 format directives are their documented expansions, N2 infix is the documented ?(let ...) tree, S1 E? vs (E,) scoping."""
import r_lex, r_scope
from common import apply, maybe_mutants


def run(prog, rep, tier):
    rep.clause = ("N1: each `%X stands for %( BODY %)` row of doc/syntax.rst (5) is implemented by the scanner as push_child(parse_subquery(BODY)) - "
                  "the implementation IS the expansion; N2: parse_op builds ASSERT(PRED_SUBX_ANY(SCOPE(SUBX_EVAL<1>(a) BIND ~a~ SUBX_EVAL<1>(b) BIND ~b~ "
                  "READ ~a~ READ ~b~ READ op))) with identical reserved names at bind and read; S1: ALT children (so both `E?` and `(E,)`) get a scope "
                  "of their own; N3: the bison actions of `E?`, `E*`, `E+`, if-then-else interpreted on an operand of every tree kind: `E?` is exactly "
                  "ALT(E's alternatives..., NOP) i.e. `(E,)`; closures wrap SCOPE(E) and only reuse a closure directly beneath them "
                  "((F+)* = F*, (F*)+ = F*); if-then-else is IFELSE of three SCOPEs; N4/N5: the scanner is simulated - which rule of lexer.ll fires at each "
                  "position is decided from the patterns (translated to regular expressions; flex's longest-match / earliest-rule discipline and start "
                  "conditions), the action of that rule is interpreted from the source of yylex: N4 ~200 literals covering every documented escape in "
                  "three contexts, raw literals, continuation and %% denote the documented bytes; N5 ~1000 layout variants of three programs covering "
                  "every token kind give the same token sequence; E11: ~400 query texts (every binary notation against every other in both groupings, "
                  "suffixes and `w:` binding to one statement, if-then-else incl. dangling else, every grouping construct around every kind of body, "
                  "binding blocks / let / scopes as in doc/syntax.rst, integer and string literals) go through the interpreted front end (scanner "
                  "simulation, the LALR automaton bison generated from parser.yy with every semantic action interpreted, tree::simplify) and the "
                  "interpreted engine; the results must be those of the documented expansion under the reference semantics.")
    rep.not_decided = ("simplifier transparency outside the query family of E10, layout inside programs other than the sampled token sequences, `if` vs its expansion, "
                       "`?(E)` vs `([E] != [])`: these equate results of two programs for all inputs (other families).")
    apply(rep, "N1", "format directives are their documented expansions", r_lex.n1(prog), 5)
    apply(rep, "N2", "infix operators are the documented ?(let..) tree", r_lex.n2(prog), 1)
    apply(rep, "N3", "`E?`, `E*`, `E+` and if-then-else build their documented trees for every kind of operand (grammar actions interpreted from source)", r_lex.n3(prog), 4)
    apply(rep, "N4", "string literals denote the documented bytes: named, octal, hex, end-of-line escapes, raw literals, continuation, %% (scanner simulated: rule selection from the patterns, actions interpreted)", r_lex.n4(prog), 8)
    apply(rep, "N5", "blanks, newlines and whitespace-delimited comments of all three styles between any two tokens do not change the token sequence (scanner simulated)", r_lex.n5(prog), 4)
    apply(rep, "N6", "every %( ... %) splice of a literal is delimited on its own, whatever it or the previous splice contains (scanner simulated)", r_lex.n6(prog), 2)
    import r_stream as _rs10
    apply(rep, "E10", "the compile-time simplification changes no result: tree::simplify interpreted from source, the simplified tree run by the interpreted engine, against the reference semantics of the original query", _rs10.e10(prog, tier), 2)
    import r_front
    apply(rep, "E11", "every piece of notation means its documented expansion, with the documented precedence and scoping (query text -> scanner simulation -> LALR automaton of parser.yy with every action interpreted -> tree::simplify -> build_exec -> op engine, all interpreted, against the documented meaning of the notation)", r_front.e11(prog, tier), 6)
    import r_tables
    apply(rep, "U1", "the simplifier's erase-remove drops the whole removed tail", r_tables.u1(prog), 1)
    apply(rep, "Y2", "every %( ... %) splice of a literal is scanned from the same initial state as the directive forms", r_lex.y2(prog), 2)
    s1 = r_scope.s1(prog)
    apply(rep, "S1", "ALT/OR/sub-expression contexts are scoped uniformly", (s1[0], s1[1]), 10)
    maybe_mutants("C15", rep, tier)
