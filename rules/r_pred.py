"""Assertion rules (C04, C09): A1 predicates are read-only on their stack, A2 op_assert yields the pulled
stack, A3 polarity pairing of ?x/!x registrations, A3c comparison alias table, A4 negation table,
A5 sub-expressions are fed a copy."""
from zw import walk, walk_nolambda, unwrap, short, Broken, calls, is_null_stack_expr
from cfg import CFG


VEC_SHAPE = {"push_back", "pop_back", "erase", "clear", "insert", "emplace_back", "emplace", "resize", "swap", "assign"}


def stack_mutators(prog):
    """methods of `stack` that change its shape: they (transitively) grow/shrink m_values or write m_profile.
    Derived from the method bodies, not from names."""
    r = prog.records.get("stack")
    if r is None:
        raise Broken("class stack vanished")
    meths = [f for f in prog.funcs.values() if f.get("cls") == "stack" and not f.get("isctor") and not f.get("isdtor")]
    if len(meths) < 6:
        raise Broken("fewer stack methods with bodies than expected")
    direct = set()
    callsto = {}
    for f in meths:
        for x in walk(f.get("body")):
            if x.get("k") == "call" and x.get("obj") is not None:
                o = unwrap(x["obj"])
                if isinstance(o, dict) and o.get("k") == "mem" and o.get("c") == "stack" and o["n"] == "m_values" \
                   and x.get("fn") in VEC_SHAPE:
                    direct.add(f["n"])
                if isinstance(o, dict) and o.get("k") == "this" and x.get("cls") == "stack":
                    callsto.setdefault(f["n"], set()).add(x["fn"])
            if x.get("k") == "call" and x.get("cls") == "stack" and x.get("obj") is None and x.get("ismethod"):
                callsto.setdefault(f["n"], set()).add(x["fn"])
            if x.get("k") == "asg":
                l = unwrap(x["lhs"])
                if isinstance(l, dict) and l.get("k") == "mem" and l.get("c") == "stack" and l["n"] in ("m_profile", "m_values"):
                    direct.add(f["n"])
    mut = set(direct)
    changed = True
    while changed:
        changed = False
        for n, cs in callsto.items():
            if n not in mut and cs & mut:
                mut.add(n)
                changed = True
    ro = {f["n"] for f in meths} - mut
    return mut, ro, set()


def a1(prog):
    """no mutating stack method is called on the stack a predicate is shown"""
    inst, findings = [], []
    mut, ro, both = stack_mutators(prog)
    preds = [f for f in prog.overrides_of("pred::result(scon &,stack &)const")]
    if len(preds) < 20:
        raise Broken("only %d pred::result overrides found (floor 20)" % len(preds))
    checked = {}

    def check_fn(f, pid, depth=0):
        """returns list of (loc, what) violations for stack parameter id pid of function f"""
        k = (f["fid"], pid)
        if k in checked:
            return checked[k]
        checked[k] = []
        out = []
        for x in walk(f.get("body")):
            if x.get("k") != "call":
                continue
            # method call on the stack itself
            o = unwrap(x.get("obj")) if x.get("obj") is not None else None
            if isinstance(o, dict) and o.get("k") == "ref" and o.get("id") == pid and x.get("cls") == "stack":
                if x.get("fn") in mut:
                    out.append((x["l"], "stack::%s" % x["fn"]))
                continue
            # passed on by reference to another function of the repository
            for i, a in enumerate(x.get("a", [])):
                ua = unwrap(a)
                if isinstance(ua, dict) and ua.get("k") == "ref" and ua.get("id") == pid:
                    callee = prog.funcs.get(x.get("fid"))
                    if x.get("fn") == "result" and x.get("virt"):
                        continue       # another predicate: covered as its own instance
                    if callee is None:
                        if x.get("own"):
                            # declared in the repository but no body seen (pure virtual etc.)
                            continue
                        continue
                    ps = callee.get("params", [])
                    # operator() calls carry the object as first argument
                    j = i - (len(x["a"]) - len(ps))
                    if 0 <= j < len(ps) and ps[j]["t"].replace(" ", "") in ("stack&",) and depth < 6:
                        out += check_fn(callee, ps[j]["id"], depth + 1)
        checked[k] = out
        return out
    for f in preds:
        ps = [p for p in f["params"] if p["t"].replace(" ", "") == "stack&"]
        if len(ps) != 1:
            raise Broken("%s has no stack& parameter" % f["fid"])
        v = check_fn(f, ps[0]["id"])
        key = "A1:" + f["q"]
        inst.append((key, {"where": f["l"]}))
        for loc, what in v:
            findings.append({"key": key, "where": loc,
                             "msg": "predicate %s calls the mutating %s on the stack it is asked about: an assertion must leave the incoming stack unchanged" % (f["q"], what),
                             "detail": None})
    return inst, findings


def a2(prog):
    """op_assert::next interpreted from source (with the stack class) on an upstream serving stacks of depth 1, 3 and 18 and a predicate
    that answers yes / no / fail per stack in every pattern of length 3: it yields exactly the stacks the predicate holds for, each
    the very object that was pulled, with the same values in the same positions, in order, and then reports exhaustion."""
    import itertools
    from cxxobj import CxxEvaluator, Obj, Vec, OutOfBounds
    from absint import Thrown
    inst, findings = [], []
    f = prog.func_opt("op_assert::next")
    if f is None or f.get("body") is None:
        raise Broken("anchor op_assert::next vanished")
    push = [g for g in prog.funcs.values() if g.get("cls") == "stack" and g["n"] == "push" and g.get("body") is not None]
    if len(push) != 1:
        raise Broken("anchor stack::push vanished")
    enum = {c["n"]: ("enum", c["n"], c["v"]) for e in prog.enums.values() if e["q"] == "pred_result" for c in e["consts"]}
    if set(enum) < {"yes", "no", "fail"}:
        raise Broken("enum pred_result vanished")

    class El:
        def __init__(self, name):
            self.name = name
            self.addr = id(self)

        def copy_value(self):
            return self

        def __repr__(self):
            return self.name

    class Ty:
        def __init__(self, c):
            self.m_code = c

        def copy_value(self):
            return Ty(self.m_code)

    class Src:
        def __init__(self):
            self.queue = []
            self.addr = id(self)

    class Pred:
        def __init__(self):
            self.answers = {}
            self.addr = id(self)
    hooks = {
        "zw_value::get_type": lambda ev, o, a: Ty(1), "value_type::code": lambda ev, o, a: o.m_code,
        "op::next": lambda ev, o, a: o.queue.pop(0) if o.queue else None,
        "pred::result": lambda ev, o, a: enum[o.answers[id(a[1])]],
        "method:result": lambda ev, o, a: enum[o.answers[id(a[1])]],
        "method:get": lambda ev, o, a: o, "method:release": lambda ev, o, a: o,
        "ctor:std::runtime_error": lambda ev, o, a: "exc",
    }
    w = prog.globals.get("selector::W")
    W = (w.get("init") or {}).get("iv") if w else None
    ev = CxxEvaluator(hooks, {"selector::W": W} if W is not None else {}, prog=prog)

    def mkstack(n, tag):
        st = Obj("stack")
        st.m_values, st.m_profile = Vec([], "values"), 0
        for i in range(n):
            ev.call(push[0], st, [El("%s%d" % (tag, i))])
        return st
    key = "A2:op_assert::next"
    bad = None
    n = 0
    for pattern in itertools.product(("yes", "no", "fail"), repeat=3):
        up, pr = Src(), Pred()
        stacks = [mkstack(d, t) for d, t in ((1, "a"), (18, "b"), (3, "c"))]
        before = [list(s_.m_values.items) for s_ in stacks]
        up.queue = list(stacks)
        for s_, ans in zip(stacks, pattern):
            pr.answers[id(s_)] = ans
        this = Obj("op_assert")
        this.m_upstream, this.m_pred = up, pr
        got = []
        try:
            for _ in range(5):
                r = ev.call(f, this, [Obj("scon")])
                n += 1
                if r is None:
                    break
                got.append(r)
            again = ev.call(f, this, [Obj("scon")])
        except (OutOfBounds, Thrown) as x:
            bad = bad or "op_assert::next: %s" % x
            continue
        want = [s_ for s_, ans in zip(stacks, pattern) if ans == "yes"]
        if ([id(x) for x in got] != [id(x) for x in want] or again is not None) and bad is None:
            bad = "with a predicate answering %s for three incoming stacks the assertion yields %d stack(s)%s; expected exactly the stacks it holds for, the very objects pulled" % (
                list(pattern), len(got), " and something after exhaustion" if again is not None else "")
        for s_, b_ in zip(stacks, before):
            if list(s_.m_values.items) != b_ and bad is None:
                bad = "the assertion changes a stack it is shown: %s became %s" % (b_[:4] + (["..."] if len(b_) > 4 else []), list(s_.m_values.items)[:4])
    inst.append((key, {"next_calls": n}))
    if bad:
        findings.append({"key": key, "where": "libzwerg/" + f["l"], "msg": bad + " (`?x`/`!x` yield the incoming stack unchanged or nothing)", "detail": None})
    return inst, findings


def _strval(e):
    e = unwrap(e)
    if isinstance(e, dict) and e.get("k") == "str":
        return e["v"]
    if isinstance(e, dict) and e.get("k") == "ctor" and e.get("c", "").startswith("std::basic_string<") and e["a"]:
        return _strval(e["a"][0])
    # "lqname + 1" style pointer arithmetic on a literal
    return None


def _name_polarity(name):
    if name in ("=~",):
        return True
    if name in ("!~",):
        return False
    if name.startswith("?"):
        return True
    if name.startswith("!"):
        return False
    return None


def pred_registrations(prog):
    """yield (name, tab_key, positive, loc, via) for every overloaded_pred_builtin construction"""
    out = []
    for f in prog.funcs.values():
        body = f.get("body")
        if body is None:
            continue
        lambdas = {}   # var id -> lambda node
        for x in walk(body):
            if x.get("k") == "decl":
                for v in x["vars"]:
                    i = unwrap(v.get("init"))
                    if isinstance(i, dict) and i.get("k") == "lambda":
                        lambdas[v["id"]] = i

        def regs_in(node):
            r = []
            for c in (walk_nolambda(node)):
                if c.get("k") == "call" and c.get("f", "").startswith("std::make_shared<overloaded_pred_builtin"):
                    r.append(c)
            return r
        # direct registrations (outside lambdas)
        for c in regs_in(body):
            name = _strval(c["a"][0])
            tab = unwrap(c["a"][1])
            pos = unwrap(c["a"][2])
            if isinstance(pos, dict) and pos.get("k") == "mem" and pos["n"] == "m_positive" and f.get("cls") == "overloaded_pred_builtin":
                continue    # create_merged: copies name and polarity of an existing builtin
            if name is None or not isinstance(pos, dict) or pos.get("k") != "bool":
                raise Broken("overloaded_pred_builtin at %s is not registered with a literal name and polarity (unmodelled shape)" % c["l"])
            out.append((name, "%s#%s" % (f["q"], tab.get("id")), pos["v"], c["l"], "direct"))
        # registrations inside lambdas, instantiated per call site
        for vid, lam in lambdas.items():
            regs = regs_in(lam["body"])
            if not regs:
                continue
            pidx = {p["id"]: i for i, p in enumerate(lam["params"])}
            sites = [c for c in calls(body) if c.get("op") == "()" and c["a"] and isinstance(unwrap(c["a"][0]), dict)
                     and unwrap(c["a"][0]).get("id") == vid]
            if not sites:
                raise Broken("lambda with predicate registrations at %s is never invoked" % lam["l"])
            for si, s in enumerate(sites):
                args = s["a"][1:]
                for c in regs:
                    n = unwrap(c["a"][0])
                    pos = unwrap(c["a"][2])
                    tab = unwrap(c["a"][1])
                    if not (isinstance(n, dict) and n.get("k") == "ref" and n.get("id") in pidx):
                        name = _strval(c["a"][0])
                    else:
                        name = _strval(args[pidx[n["id"]]])
                    if name is None or not isinstance(pos, dict) or pos.get("k") != "bool":
                        raise Broken("registration at %s (via %s) has no literal name/polarity" % (c["l"], s["l"]))
                    out.append((name, "%s#%s@%d/%s" % (f["q"], vid, si, tab.get("id")), pos["v"], s["l"], "lambda@" + lam["l"]))
    return out


def a3(prog):
    inst, findings = [], []
    regs = pred_registrations(prog)
    by_tab = {}
    for name, tab, pos, loc, via in regs:
        want = _name_polarity(name)
        key = "A3:" + name
        if want is None:
            findings.append({"key": key, "where": loc, "msg": "predicate word `%s` does not start with ? or !" % name, "detail": None})
            continue
        if want != pos:
            findings.append({"key": key, "where": loc,
                             "msg": "`%s` is registered with positive=%s: the word holds exactly when its name says it does not" % (name, str(pos).lower()),
                             "detail": {"via": via}})
        by_tab.setdefault(tab, []).append((name, pos, loc))
    # pairing: in each table, for every stem both polarities exist
    for tab, lst in by_tab.items():
        stems = {}
        for name, pos, loc in lst:
            stem = {"=~": "~", "!~": "~"}.get(name, name[1:])
            stems.setdefault(stem, set()).add(pos)
        for stem, ps in stems.items():
            key = "A3:pair:" + stem
            if ps != {True, False}:
                findings.append({"key": key, "where": lst[0][2],
                                 "msg": "word stem `%s` is registered with only one polarity from its overload table: ?x and !x would not be complements of one predicate" % stem,
                                 "detail": None})
    # a stem must not be served by two different tables within one vocabulary function with opposite polarity only
    names = {}
    for name, tab, pos, loc, via in regs:
        names.setdefault((tab.split("#")[0], name), set()).add(tab)
    inst.append(("A3:registrations", {"registrations": len(regs), "tables": len(by_tab)}))
    # pred_builtin subclasses registered directly: builtin_pred_pos handled by parse_numword (polarity from the text)
    f = prog.func_opt("(anonymous namespace)::parse_numword")
    if f is None:
        raise Broken("anchor parse_numword vanished")
    ok = False
    for x in walk(f["body"]):
        if x.get("k") == "decl":
            for v in x["vars"]:
                if v["n"] == "positive":
                    e = v.get("init")
                    # buf[0] == '?'
                    for y in walk(e):
                        if y.get("k") == "bin" and y.get("op") == "==" and any(isinstance(z, dict) and z.get("k") == "chr" and z.get("v") == ord("?") for z in (unwrap(y["lhs"]), unwrap(y["rhs"]))):
                            ok = True
    inst.append(("A3:?N/!N", {"polarity_from_first_char": ok}))
    if not ok:
        findings.append({"key": "A3:?N/!N", "where": f["l"], "msg": "position assertion ?N/!N no longer derives its polarity from the leading ?", "detail": None})
    return inst, findings


DOC_CMP = {  # frozen from the docstring in builtin-cmp.cc / doc: word -> (relation, positive)
    "?eq": ("equal", True), "==": ("equal", True), "!ne": ("equal", True),
    "!eq": ("equal", False), "!=": ("equal", False), "?ne": ("equal", False),
    "?lt": ("less", True), "<": ("less", True), "!ge": ("less", True),
    "!lt": ("less", False), ">=": ("less", False), "?ge": ("less", False),
    "?gt": ("greater", True), ">": ("greater", True), "!le": ("greater", True),
    "!gt": ("greater", False), "<=": ("greater", False), "?le": ("greater", False),
}


def a3c(prog):
    """comparison words decided completely: the registration table (word -> builtin class, polarity) is read from the init function;
    what a (class, polarity) pair MEANS is decided by building its predicate with the class's own build_pred and interpreting
    result() (through maybe_invert / pred_not / comparison_result) on all pairs of abstract values of two types."""
    from cxxobj import CxxEvaluator, Obj, Vec, OutOfBounds
    from absint import Thrown
    inst, findings = [], []
    cmp_enum = None
    for e in prog.enums.values():
        if e["q"] == "cmp_result":
            cmp_enum = {c["n"]: ("enum", c["n"], c["v"]) for c in e["consts"]}
    if cmp_enum is None:
        raise Broken("enum cmp_result vanished")

    class El:
        def __init__(self, t, r):
            self.t, self.r = t, r
            self.addr = id(self)

        def copy_value(self):
            return self

    class Ty:
        def __init__(self, c):
            self.m_code = c

        def copy_value(self):
            return Ty(self.m_code)

    def el_cmp(ev, o, a):
        if o.t != a[0].t:
            return cmp_enum["fail"]
        return cmp_enum["less"] if o.r < a[0].r else (cmp_enum["greater"] if o.r > a[0].r else cmp_enum["equal"])
    hooks = {
        "zw_value::cmp": el_cmp,
        "zw_value::get_type": lambda ev, o, a: Ty(o.t),
        "value_type::operator<": lambda ev, o, a: o.m_code < a[0].m_code,
        "stack::get": lambda ev, o, a: o.m_values.items[len(o.m_values.items) - 1 - int(a[0])],
    }
    ev = CxxEvaluator(hooks, {}, prog=prog)
    from cxxobj import OStream
    ev.globals["std::cerr"] = OStream()
    vals = [El(1, 0), El(1, 1), El(2, 0), El(2, 1)]
    rel_of = {}          # (class, polarity) -> (relation, positive) as far as the evaluation can tell

    def pr(r):
        if isinstance(r, bool):
            return "yes" if r else "no"
        return r[1] if isinstance(r, tuple) else r
    for cls in ("builtin_eq", "builtin_lt", "builtin_gt"):
        bp = prog.func_opt(cls + "::build_pred")
        if bp is None:
            raise Broken("anchor %s::build_pred vanished" % cls)
        for pol in (True, False):
            b = Obj(cls)
            b.m_positive = pol
            try:
                pred = ev.call(bp, b, [Obj("layout")])
                table = {}
                for x in vals:            # A: below TOS
                    for y in vals:        # B: TOS
                        st = Obj("stack")
                        st.m_values = Vec([x, y], "values")
                        r = ev.call(ev._resolve_virtual(pred._cls, "result", 2), pred, [Obj("scon"), st]) if isinstance(pred, Obj) else None
                        table[(x.t, x.r, y.t, y.r)] = pr(r)
            except (OutOfBounds, Thrown) as x_:
                raise Broken("%s (polarity %s) cannot be evaluated: %s" % (cls, pol, x_))
            order = lambda k: ((k[0], k[1]), (k[2], k[3]))
            meaning = None
            for rel, fn in (("equal", lambda a_, b_: a_ == b_), ("less", lambda a_, b_: a_ < b_), ("greater", lambda a_, b_: a_ > b_)):
                for positive in (True, False):
                    if all(v == ("yes" if fn(*order(k)) == positive else "no") for k, v in table.items()):
                        meaning = (rel, positive)
            key = "A3c:%s:%s" % (cls, "+" if pol else "-")
            inst.append((key, {"means": meaning}))
            if meaning is None:
                bad = [k for k, v in table.items() if v not in ("yes", "no")]
                ex = next(iter(k for k in table if k[0] != k[2]), None)
                findings.append({"key": key, "where": bp["l"],
                                 "msg": "the predicate that %s builds with polarity %s is neither a relation of the total order (first by type, then by value) nor its complement: e.g. A=(type %d, %d) B=(type %d, %d) answers %s%s" % (
                                     cls, "?" if pol else "!", ex[0], ex[1], ex[2], ex[3], table[ex], "; answers other than yes/no: %d" % len(bad) if bad else ""), "detail": None})
            rel_of[(cls, pol)] = meaning
    # positive and negative polarity of one class must be complementary
    for cls in ("builtin_eq", "builtin_lt", "builtin_gt"):
        p, n_ = rel_of.get((cls, True)), rel_of.get((cls, False))
        if p and n_ and not (p[0] == n_[0] and p[1] != n_[1]):
            findings.append({"key": "A3c:%s:polarity" % cls, "where": prog.func_opt(cls + "::build_pred")["l"],
                             "msg": "?x and !x built by %s are not complementary: %s vs %s" % (cls, p, n_), "detail": None})
    # registrations in the init function
    reg = {}
    found_fn = None
    for f in prog.funcs.values():
        body = f.get("body")
        if body is None:
            continue
        objs = {}
        for x in walk(body):
            if x.get("k") == "decl":
                for v in x["vars"]:
                    i = unwrap(v.get("init"))
                    if isinstance(i, dict) and i.get("k") == "call" and i.get("f", "").startswith("std::make_shared<builtin_") \
                       and i.get("targs") and i["targs"][0] in ("builtin_eq", "builtin_lt", "builtin_gt"):
                        b = unwrap(i["a"][0]) if i["a"] else None
                        if not (isinstance(b, dict) and b.get("k") == "bool"):
                            raise Broken("comparison builtin at %s not constructed with a literal polarity" % v["l"])
                        objs[v["id"]] = (i["targs"][0], b["v"])
        if not objs:
            continue
        found_fn = f
        for c in calls(body):
            if c.get("f") == "vocabulary::add" and c["a"]:
                a0 = unwrap(c["a"][0])
                if isinstance(a0, dict) and a0.get("k") == "ref" and a0.get("id") in objs:
                    cls, pos = objs[a0["id"]]
                    if len(c["a"]) >= 2:
                        name = _strval(c["a"][1])
                        if name is None:
                            raise Broken("alias at %s is not a literal" % c["l"])
                    else:
                        # default name from builtin_X::name(): ?x / !x by polarity
                        nm = prog.func_opt(cls + "::name")
                        name = None
                        g = CFG(nm)
                        for n in g.nodes:
                            if n.kind == "cond" and isinstance(unwrap(n.ast), dict) and unwrap(n.ast).get("n") == "m_positive":
                                for t, lab in n.succs:
                                    if lab == pos and g.nodes[t].kind == "ret":
                                        name = _strval(g.nodes[t].ast)
                        if name is None:
                            raise Broken("%s::name has an unmodelled shape" % cls)
                    m_ = rel_of.get((cls, pos))
                    reg.setdefault(name, []).append((m_[0] if m_ else None, (m_[1] if m_ else None), c["l"]))
    if found_fn is None:
        raise Broken("comparison builtins are no longer registered from named objects (unmodelled shape)")
    for name, want in sorted(DOC_CMP.items()):
        key = "A3c:" + name
        got = reg.get(name)
        inst.append((key, {"documented": want, "registered": got}))
        if not got:
            findings.append({"key": key, "where": found_fn["l"], "msg": "documented comparison word `%s` is not registered" % name, "detail": None})
            continue
        for rel, pos, loc in got:
            if (rel, pos) != want:
                findings.append({"key": key, "where": loc,
                                 "msg": "comparison word `%s` resolves to (%s, %s) but is documented as (%s, %s): aliases disagree" % (name, rel, "+" if pos else "-", want[0], "+" if want[1] else "-"),
                                 "detail": None})
    for name in reg:
        if name not in DOC_CMP:
            findings.append({"key": "A3c:" + name, "where": reg[name][0][2], "msg": "undocumented comparison alias `%s`" % name, "detail": None})
    return inst, findings


def a4(prog):
    inst, findings = [], []
    f = prog.func_opt("operator!")
    if f is None:
        cands = [x for x in prog.funcs.values() if x["n"] == "operator!" and x["params"] and x["params"][0]["t"] == "pred_result"]
        if len(cands) != 1:
            raise Broken("operator!(pred_result) vanished")
        f = cands[0]
    # the table is read off by interpreting the function on the three enumerators (any spelling: switch, if-chain, arithmetic)
    from absint import Evaluator, Thrown
    enum = None
    for e in prog.enums.values():
        if e["q"] == "pred_result":
            enum = {c["n"]: ("enum", c["n"], c["v"]) for c in e["consts"]}
    if enum is None:
        raise Broken("enum pred_result vanished")
    ev0 = Evaluator({"abort": lambda ev, o, a: (_ for _ in ()).throw(Thrown("abort"))}, {}, prog=prog)
    table = {}
    for n, v in enum.items():
        try:
            r = ev0.call(f, None, [v])
        except Thrown as x:
            r = "aborts"
        if isinstance(r, int) and not isinstance(r, bool):
            r = next((k for k, e in enum.items() if e[2] == r), r)
        table[n] = r[1] if isinstance(r, tuple) else r
    want = {"no": "yes", "yes": "no", "fail": "fail"}
    key = "A4:operator!"
    inst.append((key, {"table": table}))
    if table != want:
        findings.append({"key": key, "where": f["l"], "msg": "negation table of pred_result is %s, expected %s (an erroring predicate must make neither ?X nor !X hold)" % (table, want), "detail": None})
    # pred_not is constructed only in maybe_invert and build_pred
    for g in prog.funcs.values():
        for c in calls(g.get("body")):
            if c.get("f", "").startswith(("std::make_unique<pred_not", "std::make_shared<pred_not")):
                k2 = "A4:pred_not@" + g["q"]
                inst.append((k2, {"at": c["l"]}))
                if g["q"] not in ("maybe_invert", "(anonymous namespace)::build_pred"):
                    findings.append({"key": k2, "where": c["l"], "msg": "pred_not constructed in %s: polarity is applied outside maybe_invert/build_pred" % g["q"], "detail": None})
    # pred_not::result is `! inner`
    pn = prog.func_opt("pred_not::result")
    if pn is None:
        raise Broken("pred_not::result vanished")
    # pred_not::result interpreted with an inner predicate answering each of the three values: it must answer the negation table
    class Inner:
        def __init__(self, v):
            self.v = v
            self.addr = id(self)
    ev1 = Evaluator({"pred::result": lambda ev, o, a: o.v, "method:result": lambda ev, o, a: o.v,
                     "abort": lambda ev, o, a: (_ for _ in ()).throw(Thrown("abort"))}, {}, prog=prog)
    ok = True
    for n, v in enum.items():
        this = type("PredNot", (), {})()
        flds = [fl["n"] for fl in prog.records.get("pred_not", {}).get("fields", []) if "pred" in fl.get("t", "")]
        if len(flds) != 1:
            raise Broken("pred_not no longer holds exactly one inner predicate")
        setattr(this, flds[0], Inner(v))
        this.addr = 1
        try:
            r = ev1.call(pn, this, [None, None])
        except Thrown:
            r = None
        got = r[1] if isinstance(r, tuple) else r
        if got != want[n]:
            ok = False
    inst.append(("A4:pred_not::result", {"is_negation_of_inner": ok}))
    if not ok:
        findings.append({"key": "A4:pred_not::result", "where": pn["l"], "msg": "pred_not::result is no longer `! inner->result(..)`", "detail": None})
    return inst, findings


def a5(prog):
    """every set_next gets a copy of the incoming stack, or a moved stack that is not used afterwards"""
    inst, findings = [], []
    MUST_COPY = {"pred_subx_any::result", "op_subx::next", "op_capture::next", "op_or::next"}
    n = 0
    for f in prog.funcs.values():
        body = f.get("body")
        if body is None:
            continue
        sn = [c for c in calls(body, lambdas=False) if c.get("fn") == "set_next" and c.get("cls") in ("op_origin", "stringer_origin")]
        if not sn:
            continue
        g = None
        for c in sn:
            n += 1
            a = c["a"][1] if len(c["a"]) > 1 else None
            ua = unwrap(a)
            key = "A5:%s@%s" % (f["q"], c["l"])
            # copy form: make_unique<stack>(X)
            raw = a
            while isinstance(raw, dict) and raw.get("k") == "ctor" and raw.get("cm") and len(raw["a"]) == 1:
                raw = raw["a"][0]
            is_copy = isinstance(raw, dict) and raw.get("k") == "call" and raw.get("f", "").startswith("std::make_unique<stack")
            if is_copy:
                inst.append((key, {"form": "copy"}))
                continue
            is_move = isinstance(raw, dict) and raw.get("k") == "call" and raw.get("f", "").startswith("std::move<")
            if f["q"] in MUST_COPY or (f["q"] == "op_ifelse::next" and "cond" in short(c.get("obj"))):
                findings.append({"key": key, "where": c["l"],
                                 "msg": "%s feeds its sub-expression `%s` instead of a copy of the incoming stack: the surrounding stack would be consumed/modified by the sub-expression" % (f["q"], short(a)[:60]),
                                 "detail": None})
                continue
            if is_move and isinstance(ua, dict) and ua.get("k") in ("ref", "mem"):
                # moved: the source must not be used on any path afterwards
                if g is None:
                    g = CFG(f)
                node = [nn for nn in g.nodes if isinstance(nn.ast, dict) and any(y is c for y in walk_nolambda(nn.ast))]
                if not node:
                    raise Broken("set_next call not found in CFG of %s" % f["q"])
                after = g.reachable(start=node[0].id) - {node[0].id}
                used = []
                for i in after:
                    nn = g.nodes[i]
                    if not isinstance(nn.ast, dict):
                        continue
                    for y in walk_nolambda(nn.ast):
                        if ua.get("k") == "ref" and y.get("k") == "ref" and y.get("id") == ua.get("id"):
                            # re-assignment / re-declaration kills: accept decl of same var (loop var) only
                            if nn.ast.get("k") == "decl" and any(v["id"] == ua.get("id") for v in nn.ast["vars"]):
                                continue
                            if nn.ast.get("k") in ("asg",) and unwrap(nn.ast["lhs"]) is y:
                                continue
                            used.append(nn.loc)
                # uses that are dominated by a re-definition of the variable are fine; approximate by checking
                # that the variable is a loop/if condition variable re-declared on the way back
                if used and ua.get("k") == "ref":
                    redecl = any(isinstance(nn.ast, dict) and nn.ast.get("k") == "decl" and any(v["id"] == ua.get("id") for v in nn.ast["vars"]) for nn in g.nodes)
                    if redecl:
                        # paths from the move to a use must pass the re-declaration
                        decl_ids = {nn.id for nn in g.nodes if isinstance(nn.ast, dict) and nn.ast.get("k") == "decl" and any(v["id"] == ua.get("id") for v in nn.ast["vars"])}
                        after2 = g.reachable(start=node[0].id, avoid=lambda nn: nn.id in decl_ids) - {node[0].id}
                        used = [g.nodes[i].loc for i in after2 if isinstance(g.nodes[i].ast, dict) and i not in decl_ids and any(
                            y.get("k") == "ref" and y.get("id") == ua.get("id") for y in walk_nolambda(g.nodes[i].ast))]
                inst.append((key, {"form": "move", "used_after": used}))
                if used:
                    findings.append({"key": key, "where": c["l"], "msg": "%s moves `%s` into the sub-expression and uses it afterwards at %s" % (f["q"], short(ua), used[:3]), "detail": None})
                continue
            inst.append((key, {"form": "other: " + short(a)[:50]}))
    if n < 10:
        raise Broken("only %d set_next call sites found (floor 10)" % n)
    return inst, findings


# ops that evaluate a sub-expression on a copy and then continue with the OUTER stack
OUTER_STACK_OPS = {"op_subx::next": "let/infix operand: yields the saved outer stack plus the kept values",
                   "op_capture::next": "[E]: yields the pulled stack plus the captured sequence"}


def a6(prog):
    """op_subx::next (let, infix operands: keep = number of values bound) and op_capture::next ([E]) interpreted from source together
    with the stack class they use, with an upstream that serves outer stacks and a sub-expression chain that, per outer stack, serves
    0-2 inner stacks which dropped, replaced and pushed values below and above what is kept: every yielded stack consists of exactly
    the outer stack's values (same values, same order) plus - for subx - the top `keep` values of the inner stack in their order, or
    - for capture - one sequence holding the top value of each inner stack in order; the sub-expression is fed a copy, never the
    outer stack itself; once per inner stack (subx) / once per outer stack (capture)."""
    from cxxobj import CxxEvaluator, Obj, Vec, OutOfBounds
    from absint import Thrown
    inst, findings = [], []

    def one(q):
        fs = [f for f in prog.funcs.values() if f["q"] == q and f.get("body") is not None]
        if len(fs) != 1:
            raise Broken("anchor %s vanished" % q)
        return fs[0]
    push = [f for f in prog.funcs.values() if f.get("cls") == "stack" and f["n"] == "push" and f.get("body") is not None]
    if len(push) != 1:
        raise Broken("anchor stack::push vanished")

    class El:
        def __init__(self, name, clone_of=None):
            self.name, self.clone_of = name, clone_of
            self.addr = id(self)

        def copy_value(self):
            return self

        def root(self):
            return self if self.clone_of is None else self.clone_of.root()

        def __repr__(self):
            return self.name

    class Ty:
        def __init__(self, c):
            self.m_code = c

        def copy_value(self):
            return Ty(self.m_code)

    class Src:
        def __init__(self):
            self.queue = []
            self.addr = id(self)
    fed = []
    plan = {}

    def op_next(ev, o, a):
        if isinstance(o, Src):
            return o.queue.pop(0) if o.queue else None
        raise Broken("op::next on an object the model does not know")

    def set_next(ev, o, a):
        fed.append(a[1])
        o.inner.queue = [mk() for mk in plan["inner"]]
        return None
    states = {}
    seqs = []

    def mk_seq(ev, o, a):
        # value_seq (seq_t &&, pos) / make_unique<value_seq>: remember the elements
        q = Obj("value_seq")
        items = a[0]
        q.items = list(items.items) if hasattr(items, "items") and not callable(items.items) else items
        q.pos = a[1] if len(a) > 1 else None
        q.name, q.clone_of = "<seq>", None
        q.root = lambda q_=q: q_
        seqs.append(q)
        return q
    hooks = {
        "zw_value::clone": lambda ev, o, a: El(o.name, clone_of=o) if isinstance(o, El) else o,
        "zw_value::get_type": lambda ev, o, a: Ty(1),
        "value_type::code": lambda ev, o, a: o.m_code,
        "op::next": op_next,
        "op::state_des": lambda ev, o, a: None,
        "op::state_con": lambda ev, o, a: None,
        "op_origin::set_next": set_next,
        "scon::get<*": lambda ev, o, a: states["st"],
        "method:get": lambda ev, o, a: o,
        "method:release": lambda ev, o, a: o,
        "ctor:value_seq": mk_seq,
        "std::make_unique<value_seq*": mk_seq,
        "ctor:std::runtime_error": lambda ev, o, a: "exc",
    }
    w = prog.globals.get("selector::W")
    W = (w.get("init") or {}).get("iv") if w else None
    ev = CxxEvaluator(hooks, {"selector::W": W} if W is not None else {}, prog=prog)

    def mkstack(els):
        st = Obj("stack")
        st.m_values, st.m_profile = Vec([], "values"), 0
        for e in els:
            ev.call(push[0], st, [e])
        return st

    def names(st):
        return [repr(x) for x in st.m_values.items]
    for q, cls, stcls in (("op_subx::next", "op_subx", "op_subx::state"), ("op_capture::next", "op_capture", None)):
        f = one(q)
        key = "A6:" + q
        bad = None
        n = 0
        keeps = (0, 1, 2) if cls == "op_subx" else (None,)
        for keep in keeps:
            for n_inner in (0, 1, 2):
                for n_outer in (1, 2):
                    outers = []
                    for j in range(n_outer):
                        outers.append([El("a%d" % j), El("b%d" % j)])
                    up, inner = Src(), Src()
                    up.queue = [mkstack(o) for o in outers]
                    outer_stacks = list(up.queue)
                    origin = Obj("op_origin")
                    origin.inner = inner
                    # each inner stack: the sub-expression replaced what was below and left its own values on top
                    inner_vals = []

                    def maker(i):
                        def mk():
                            vals = [El("junk%d" % i), El("x%d" % i), El("y%d" % i)]
                            inner_vals.append(vals)
                            return mkstack(vals)
                        return mk
                    plan["inner"] = [maker(i) for i in range(n_inner)]
                    del fed[:]
                    del seqs[:]
                    this = Obj(cls)
                    this.m_upstream, this.m_origin, this.m_op, this.m_ll = up, origin, inner, 0
                    if keep is not None:
                        this.m_keep = keep
                    if stcls:
                        states["st"] = ev.new_object(stcls)
                    ev.steps = 0
                    got = []
                    try:
                        for _ in range(n_outer * max(n_inner, 1) + 2):
                            r = ev.call(f, this, [Obj("scon")])
                            n += 1
                            if r is None:
                                break
                            got.append(r)
                    except OutOfBounds as x:
                        bad = bad or "%s: %s" % (q, x)
                        continue
                    except Thrown as x:
                        bad = bad or "%s raises an error (%s)" % (q, x)
                        continue
                    # expected results
                    want = []
                    k_in = 0
                    for j, o in enumerate(outers):
                        if cls == "op_subx":
                            for i in range(n_inner):
                                vals = inner_vals[k_in] if k_in < len(inner_vals) else None
                                k_in += 1
                                want.append((o, [v for v in (vals or [])[len(vals or []) - keep:]] if keep else []))
                        else:
                            tops = []
                            for i in range(n_inner):
                                vals = inner_vals[k_in] if k_in < len(inner_vals) else None
                                k_in += 1
                                tops.append(vals[-1] if vals else None)
                            want.append((o, tops))
                    what = "%s with %s, %d outer stack(s), %d result(s) of the sub-expression per stack" % (
                        q, ("keep=%d" % keep) if keep is not None else "capture", n_outer, n_inner)
                    if len(got) != len(want):
                        bad = bad or "%s yields %d stacks, expected %d" % (what, len(got), len(want))
                        continue
                    for r, (o, extra) in zip(got, want):
                        vals = r.m_values.items
                        base, top = vals[:len(o)], vals[len(o):]
                        if [v.root() for v in base if hasattr(v, "root")] != o or len(base) != len(o):
                            bad = bad or "%s yields the stack %s whose lower part is not the incoming stack %s" % (what, names(r), [repr(x) for x in o])
                        elif cls == "op_subx" and [v.root() for v in top] != extra:
                            bad = bad or "%s yields %s; expected the incoming stack %s plus the kept values %s" % (what, names(r), [repr(x) for x in o], [repr(x) for x in extra])
                        elif cls == "op_capture" and not (len(top) == 1 and getattr(top[0], "_cls", None) == "value_seq"
                                                         and [getattr(x, "root", lambda: x)() for x in (top[0].items.items if hasattr(top[0].items, "items") else top[0].items)] == extra):
                            bad = bad or "%s yields %s; expected the incoming stack %s plus one sequence of the tops %s" % (what, names(r), [repr(x) for x in o], [repr(x) for x in extra])
                        if r in outer_stacks and cls == "op_capture" and False:
                            pass
                    for s_ in fed:
                        if s_ in outer_stacks and any(s_ is r for r in got):
                            bad = bad or "%s hands the sub-expression the very stack it later yields" % what
        inst.append((key, {"next_calls": n}))
        if bad:
            findings.append({"key": key, "where": "libzwerg/" + f["l"], "msg": bad + ": whatever the sub-expression did below the kept values (drop, swap, replace) must not leak into the surrounding stack", "detail": None})
    return inst, findings


def a4b(prog):
    """three-valued conjunction/disjunction of predicate results: fail is absorbing, otherwise boolean and/or (abstract evaluation
    over the 3x3 domain)"""
    from absint import Evaluator
    inst, findings = [], []
    enum = None
    for e in prog.enums.values():
        if e["q"] == "pred_result":
            enum = {c["n"]: ("enum", c["n"], c["v"]) for c in e["consts"]}
    if enum is None:
        raise Broken("enum pred_result vanished")
    ev = Evaluator({}, {})
    for opname, fn in (("operator&&", lambda x, y: x and y), ("operator||", lambda x, y: x or y)):
        fs = [f for f in prog.funcs.values() if f["n"] == opname and len(f["params"]) == 2 and f["params"][0]["t"] == "pred_result"]
        if len(fs) != 1:
            raise Broken("%s(pred_result, pred_result) vanished" % opname)
        bad = []
        for a in enum.values():
            for b in enum.values():
                r = ev.call(fs[0], None, [a, b])
                want = "fail" if "fail" in (a[1], b[1]) else ("yes" if fn(a[1] == "yes", b[1] == "yes") else "no")
                got = r[1] if isinstance(r, tuple) else r
                if got != want:
                    bad.append("%s %s %s = %s (expected %s)" % (a[1], opname[8:], b[1], got, want))
        key = "A4b:" + opname
        inst.append((key, {"table_ok": not bad}))
        if bad:
            findings.append({"key": key, "where": fs[0]["l"], "msg": "three-valued %s on predicate results is wrong: %s" % (opname[8:], "; ".join(bad[:3])), "detail": None})
    return inst, findings


def a8(prog):
    """a predicate that reports an error answers `fail`: in every function returning pred_result, forward dataflow over the CFG with the
    state (an "Error…" message was written to std::cerr on this path, constant held by each local pred_result variable); a return that is
    reached with the error flag set and a value that is provably `yes` or `no` violates `neither ?X nor !X holds when X reports an error`."""
    from cfg import CFG
    from zw import walk_nolambda
    inst, findings = [], []

    def direct_report(e):
        has_cerr = has_err = False
        for x in walk_nolambda(e):
            if x.get("k") == "ref" and x.get("q") == "std::cerr":
                has_cerr = True
            if x.get("k") == "str" and isinstance(x.get("v"), str) and x["v"].lstrip().startswith("Error"):
                has_err = True
        return has_cerr and has_err
    # functions that always report when called (every path from entry writes the message): only straight-line helpers are taken
    reporters = set()
    grew = True
    while grew:
        grew = False
        for f in prog.funcs.values():
            b = f.get("body")
            if f["fid"] in reporters or not b or f.get("ret") != "void" or b.get("k") != "block":
                continue
            for st in b["s"]:
                if st.get("k") in ("if", "while", "for", "do", "switch", "try"):
                    continue
                if direct_report(st) or any(x.get("k") == "call" and x.get("fid") in reporters for x in walk_nolambda(st)):
                    reporters.add(f["fid"])
                    grew = True
                    break

    def reports(e):
        if direct_report(e):
            return True
        for x in walk_nolambda(e):
            if x.get("k") == "call" and x.get("fid") in reporters:
                return True
        return False

    def const_of(e, env):
        while isinstance(e, dict) and e.get("k") in ("ctor", "cast", "paren") and len(e.get("a", [e.get("e")])) == 1:
            e = (e.get("a") or [e.get("e")])[0]
        if isinstance(e, dict) and e.get("k") == "ref":
            if e.get("d") == "enum" and (e.get("q") or "").startswith("pred_result::"):
                return e["n"]
            if e.get("d") == "local":
                return env.get(e["id"], "?")
        return "?"
    nfun = nrep = 0
    for f in sorted(prog.funcs.values(), key=lambda f: f["fid"]):
        if f.get("ret") != "pred_result" or not f.get("body") or "/test" in f.get("file", "") or "test-" in f.get("file", ""):
            continue
        nfun += 1
        if not any(reports(x) for x in [f["body"]]):
            continue
        nrep += 1
        g = CFG(f)
        states = {g.entry.id: {(False, ())}}
        work = [g.entry.id]
        bad = {}
        while work:
            nid = work.pop()
            n = g.nodes[nid]
            outs = set()
            for rep_, envt in states[nid]:
                env = dict(envt)
                a = n.ast
                if isinstance(a, dict) and n.kind in ("stmt", "cond", "ret", "switch"):
                    if n.kind != "ret" or True:
                        if reports(a):
                            rep_ = True
                    if a.get("k") == "decl":
                        for v in a.get("vars", []):
                            if v.get("t") in ("pred_result", "const pred_result"):
                                env[v["id"]] = const_of(v.get("init"), env) if v.get("init") is not None else "?"
                    else:
                        for x in walk_nolambda(a):
                            if x.get("k") == "asg" and isinstance(x.get("lhs"), dict) and x["lhs"].get("k") == "ref" and x["lhs"].get("id") in env:
                                env[x["lhs"]["id"]] = const_of(x.get("rhs"), env) if x.get("op") == "=" else "?"
                            elif x.get("k") == "un" and x.get("op") == "&" and isinstance(x.get("e"), dict) and x["e"].get("id") in env:
                                env[x["e"]["id"]] = "?"
                    if n.kind == "ret":
                        v = const_of(a, env)
                        if rep_ and v in ("yes", "no"):
                            bad.setdefault(n.loc, v)
                outs.add((rep_, tuple(sorted(env.items()))))
            for t, lab in n.succs:
                cur = states.setdefault(t, set())
                if not outs <= cur:
                    cur |= outs
                    work.append(t)
        key = "A8:" + f["q"]
        inst.append((key, {"cfg_nodes": len(g.nodes)}))
        for loc, v in sorted(bad.items()):
            findings.append({"key": key, "where": "libzwerg/" + str(loc),
                             "msg": "%s answers `%s` on a path that has reported an error to std::cerr: with `?x` and `!x` built from the same "
                                    "predicate one of them then holds although x itself failed (an erroring predicate must answer fail so that neither holds)" % (f["q"], v),
                             "detail": None})
    inst.append(("A8:functions", {"returning_pred_result": nfun, "reporting": nrep}))
    return inst, findings


# ---------------------------------------------------------------------------
# A1b: predicates do not modify the values they are asked about

STD_MUT = VEC_SHAPE | {"operator=", "operator+=", "reset", "append", "push_front", "pop_front", "sort", "reverse", "merge", "splice", "remove", "unique", "replace"}


def _is_handle(t):
    t = (t or "").strip()
    return t.endswith("&") or t.endswith("*") or t.startswith(("std::shared_ptr<", "std::unique_ptr<", "const std::shared_ptr<", "const std::unique_ptr<"))


def field_writers(prog):
    """fids of member functions of the repository's classes that may modify the object they are called on: they assign/increment a
    field, call a mutating standard-container member on a field, or call another such member function on `this` or on a field
    (fixpoint).  const member functions cannot (mutable members are ruled out by Q1)."""
    from zw import field_chain
    direct, callsto = set(), {}
    meths = [f for f in prog.funcs.values() if f.get("cls") and f.get("body") is not None and not f.get("const") and not f.get("isctor") and not f.get("isdtor")
             and not f.get("static")]
    for f in meths:
        for x in walk_nolambda(f["body"]):
            k = x.get("k")
            tgt = None
            if k == "asg":
                tgt = x.get("lhs")
            elif k == "un" and x.get("op") in ("++", "--", "post++", "post--", "++pre", "--pre"):
                tgt = x.get("e")
            elif k == "call" and x.get("obj") is not None and not x.get("own") and x.get("fn") in STD_MUT:
                tgt = x["obj"]
            elif k == "call" and x.get("op") in ("=", "+=", "-=") and x.get("a"):
                tgt = x["a"][0]
            if tgt is not None:
                fc = field_chain(tgt)
                # a field, or - for a class derived from a standard container - the object itself
                if fc and fc[0] == "this" and (fc[1] or (k == "call" and not x.get("own"))):
                    direct.add(f["fid"])
                # writes through an iterator / reference obtained from a member (e.g. `it->length = ..` with it = find ())
            if k in ("asg", "un") and tgt is not None and isinstance(tgt, dict):
                fc = field_chain(tgt)
                if fc and fc[0].startswith("local:") and "*" in fc[1]:
                    loc_id = fc[0].split(":")[1]
                    for d in walk_nolambda(f["body"]):
                        if d.get("k") == "decl":
                            for v in d["vars"]:
                                if str(v["id"]) == loc_id and v.get("init") is not None and not (v.get("t") or "").startswith("const "):
                                    for y in walk_nolambda(v["init"]):
                                        if y.get("k") == "this" or (y.get("k") == "call" and y.get("obj") is None and y.get("ismethod")):
                                            direct.add(f["fid"])
            if k == "call" and x.get("own") and x.get("ismethod"):
                o = x.get("obj")
                fc = field_chain(o) if o is not None else ("this", [])
                if fc and fc[0] == "this":
                    callsto.setdefault(f["fid"], set()).add(x.get("fid"))
    w = set(direct)
    changed = True
    while changed:
        changed = False
        for fid, cs in callsto.items():
            if fid not in w and cs & w:
                w.add(fid)
                changed = True
    return w, len(meths)


# objects that are reachable from a value but are not part of it (one row per class, with the reason)
A1B_NOT_PART_OF_VALUE = {
    "dwfl_context": "the per-file context shared by all values of that file: its only mutable members are the parent/root memo tables, filled from the "
                    "immutable DWARF data on demand; no value's comparison or rendering reads them (their correctness is C05's I-rules)",
}


def a1b(prog):
    """A predicate's operands stay on the stack, so `result` must leave them as they are: in every override of pred::result and of
    the typed pred_overload<...>::result, no assignment goes through, and no modifying member function (field_writers; mutating
    members of standard containers) is called on, an expression that denotes an operand or part of it - a reference parameter, what a
    getter returns by reference or smart pointer from it, what stack::top/get return, a downcast of those, or a local reference /
    pointer / smart pointer initialised from any of them.  Copies (locals of value type) are free to change."""
    from zw import field_chain
    inst, findings = [], []
    writers, nmeth = field_writers(prog)
    preds = [f for f in prog.funcs.values() if f["n"] == "result" and f.get("ret") == "pred_result" and f.get("body") is not None and f.get("cls")]
    if len(preds) < 40:
        raise Broken("only %d predicate result functions found (floor 40)" % len(preds))
    inst.append(("A1b:writers", {"member_functions_scanned": nmeth, "may_modify_their_object": len(writers)}))
    for f in sorted(preds, key=lambda f: f["fid"]):
        rooted = {p["id"] for p in f["params"] if _is_handle(p["t"]) and "scon" not in p["t"] and not p["t"].startswith("const ")}

        def is_rooted(e):
            e0 = e
            for _ in range(12):
                if not isinstance(e, dict):
                    return False
                k = e.get("k")
                if k == "ref":
                    return e.get("id") in rooted
                if k in ("mem",):
                    e = e.get("b")
                elif k in ("cast", "paren", "mte"):
                    e = e.get("e")
                elif k == "un" and e.get("op") in ("*", "&"):
                    e = e.get("e")
                elif k == "idx":
                    e = e.get("b")
                elif k == "ctor" and e.get("cm") and len(e.get("a", [])) == 1:
                    e = e["a"][0]
                elif k == "call":
                    callee = prog.funcs.get(e.get("fid"))
                    ret = (callee or {}).get("ret") or ""
                    if e.get("obj") is not None and (e.get("fn") in ("operator->", "operator*", "get", "top", "at", "operator[]", "front", "back", "begin", "end", "value")
                                                     or _is_handle(ret) or (callee is None and e.get("own"))):
                        e = e["obj"]
                    elif e.get("op") in ("->", "*", "[]") and e.get("a"):
                        e = e["a"][0]
                    elif (e.get("f") or "").startswith(("zw_value::as<", "value::as<", "std::move<", "std::forward<", "std::addressof<", "std::get<")) and e.get("a"):
                        e = e["a"][0]
                    else:
                        return False
                else:
                    return False
            return False
        decls = [v for x in walk_nolambda(f["body"]) if x.get("k") == "decl" for v in x["vars"]]
        decls += [x["var"] for x in walk_nolambda(f["body"]) if x.get("k") in ("if", "while", "for") and isinstance(x.get("var"), dict)]
        changed = True
        while changed:
            changed = False
            for v in decls:
                if v["id"] not in rooted and _is_handle(v.get("t")) and not (v.get("t") or "").startswith("const ") and v.get("init") is not None and is_rooted(v["init"]):
                    rooted.add(v["id"])
                    changed = True
        key = "A1b:" + f["q"]
        bad = None
        for x in walk_nolambda(f["body"]):
            k = x.get("k")
            if k == "asg" or (k == "un" and x.get("op") in ("++", "--", "post++", "post--")):
                tgt = x.get("lhs") if k == "asg" else x.get("e")
                if isinstance(tgt, dict) and tgt.get("k") != "ref" and is_rooted(tgt):
                    bad = bad or (x.get("l"), "assigns through `%s`" % short(tgt))
            if k != "call":
                continue
            if not x.get("own") and x.get("obj") is None and not x.get("op") and x.get("a") and str(x.get("fid") or "").endswith(")") \
               and x.get("fn") in ("swap", "iter_swap", "exchange", "swap_ranges"):
                # the standard functions that write what they are handed by non-const reference (a forwarding reference, as of make_unique, is a copy)
                fid_ = str(x["fid"])
                depth_, cur_, plist = 0, "", []
                for ch in fid_[fid_.find("(", fid_.rfind(">") if fid_.rfind(">") > fid_.find("(") and False else 0) + 1:-1] if "(" in fid_ else "":
                    if ch in "<(":
                        depth_ += 1
                    elif ch in ">)":
                        depth_ -= 1
                    if ch == "," and depth_ == 0:
                        plist.append(cur_.strip())
                        cur_ = ""
                    else:
                        cur_ += ch
                if cur_.strip():
                    plist.append(cur_.strip())
                for pt, arg in zip(plist, x["a"]):
                    if pt.endswith("&") and not pt.endswith("&&") and not pt.startswith("const ") and "basic_ostream" not in pt and is_rooted(arg) \
                       and not (isinstance(arg, dict) and arg.get("k") == "ref" and arg.get("id") in {p_["id"] for p_ in f["params"]} and False):
                        bad = bad or (x.get("l"), "passes `%s` to %s by non-const reference" % (short(arg), x.get("fn")))
            o = x.get("obj")
            if o is None and x.get("op") in ("=", "+=") and x.get("a"):
                o = x["a"][0]
                if is_rooted(o) and not (isinstance(o, dict) and o.get("k") == "ref"):
                    bad = bad or (x.get("l"), "assigns to `%s`" % short(o))
                continue
            if o is None or x.get("cls") == "stack":
                continue
            if x.get("own"):
                if x.get("cls") in A1B_NOT_PART_OF_VALUE:
                    continue
                if x.get("fid") in writers and is_rooted(o):
                    bad = bad or (x.get("l"), "calls %s, which modifies its object, on `%s`" % (x.get("f"), short(o)))
            elif x.get("fn") in STD_MUT and is_rooted(o):
                bad = bad or (x.get("l"), "calls the mutating %s on `%s`" % (x.get("fn"), short(o)))
        inst.append((key, {"handles_tracked": len(rooted)}))
        if bad:
            findings.append({"key": key, "where": "libzwerg/" + str(bad[0] or f["l"]),
                             "msg": "predicate %s %s: its operands stay on the stack, so `?x` would change the values it is asked about" % (f["q"], bad[1]), "detail": None})
    return inst, findings
