"""Table rules: Z1 named constants round-trip (writer tables vs vocabulary), V2 family agreement,
Z2 escape tables, Z3 hex fill, N1 format directives, X1 operand table, W2 ELF macro/domain pairing."""
import re
from zw import walk, walk_nolambda, unwrap, short, Broken, calls
from r_scope import switch_groups


def strval(e, scope=None):
    """string literal value of e; sees through std::string construction, `lit + N` pointer arithmetic and, when the enclosing
    function body is given as `scope`, a local that is initialised with a literal and never assigned afterwards"""
    e = unwrap(e)
    if not isinstance(e, dict):
        return None
    if e.get("k") == "str":
        return e["v"]
    if e.get("k") == "ctor" and e.get("c", "").startswith("std::basic_string<") and e["a"]:
        return strval(e["a"][0], scope)
    if e.get("k") == "ref" and e.get("d") in ("local", "slocal") and scope is not None:
        inits = [v.get("init") for x in walk(scope) if x.get("k") == "decl" for v in x["vars"] if v["id"] == e.get("id")]
        assigned = any(x.get("k") == "asg" and isinstance(unwrap(x["lhs"]), dict) and unwrap(x["lhs"]).get("id") == e.get("id") for x in walk(scope))
        if len(inits) == 1 and inits[0] is not None and not assigned:
            return strval(inits[0], None)
        return None
    if e.get("k") == "bin" and e.get("op") == "+":
        s = strval(e["lhs"], scope)
        r = unwrap(e["rhs"])
        if s is not None and isinstance(r, dict) and r.get("k") == "int":
            return s[r["v"]:]
    return None


def subst(e, binding):
    """resolve a lambda parameter reference through the call-site binding"""
    u = unwrap(e)
    if isinstance(u, dict) and u.get("k") == "ref" and u.get("id") in binding:
        return binding[u["id"]]
    if isinstance(u, dict) and u.get("k") == "bin" and u.get("op") == "+":
        l = unwrap(u["lhs"])
        if isinstance(l, dict) and l.get("k") == "ref" and l.get("id") in binding:
            return {"k": "bin", "op": "+", "lhs": binding[l["id"]], "rhs": u["rhs"]}
    return e


def intval(e):
    e0 = e
    e = unwrap(e)
    if not isinstance(e, dict):
        return None
    if "iv" in e:
        return int(e["iv"]) if not isinstance(e["iv"], str) else int(e["iv"])
    if e.get("k") in ("int", "chr"):
        return int(e["v"])
    if e.get("k") == "ctor" and len(e.get("a", [])) == 1:
        return intval(e["a"][0])
    if e.get("k") == "cast":
        return intval(e.get("e"))
    return None


def evalint(e, binding):
    """integer value of e with lambda parameters bound to call-site arguments; None if not constant"""
    v = intval(e)
    if v is not None:
        return v
    u = unwrap(e)
    if not isinstance(u, dict):
        return None
    k = u.get("k")
    if k == "ref" and u.get("id") in binding:
        return evalint(binding[u["id"]], {})
    if k in ("ctor",) and len(u.get("a", [])) == 1:
        return evalint(u["a"][0], binding)
    if k == "cast":
        return evalint(u.get("e"), binding)
    if k == "un" and u.get("op") in ("-", "+", "~"):
        a = evalint(u["e"], binding)
        return None if a is None else {"-": -a, "+": a, "~": ~a}[u["op"]]
    if k == "bin":
        a, b = evalint(u["lhs"], binding), evalint(u["rhs"], binding)
        if a is None or b is None:
            return None
        try:
            return {"+": a + b, "-": a - b, "*": a * b, "|": a | b, "&": a & b, "<<": a << b, ">>": a >> b}.get(u["op"])
        except Exception:
            return None
    return None


def expand_calls(prog, want):
    """yield (call, binding, site_loc, func) for every call satisfying want(call), instantiating calls that
    sit inside a local lambda once per invocation of that lambda (binding: lambda param id -> argument expr)"""
    for f in prog.funcs.values():
        body = f.get("body")
        if body is None:
            continue
        lambdas = {}
        for x in walk(body):
            if x.get("k") == "decl":
                for v in x["vars"]:
                    i = unwrap(v.get("init"))
                    if isinstance(i, dict) and i.get("k") == "lambda":
                        lambdas[v["id"]] = i
        for c in walk_nolambda(body):
            if c.get("k") == "call" and want(c):
                yield c, {}, c.get("l"), f
        for vid, lam in lambdas.items():
            inner = [c for c in walk_nolambda(lam["body"]) if c.get("k") == "call" and want(c)]
            if not inner:
                continue
            sites = [c for c in calls(body) if c.get("op") == "()" and c["a"] and isinstance(unwrap(c["a"][0]), dict)
                     and unwrap(c["a"][0]).get("k") == "ref" and unwrap(c["a"][0]).get("id") == vid]
            if not sites:
                raise Broken("lambda at %s containing table registrations is never invoked" % lam.get("l"))
            for s in sites:
                binding = {p["id"]: a for p, a in zip(lam["params"], s["a"][1:])}
                for c in inner:
                    yield c, binding, s.get("l"), f


def dom_of(e, binding=None):
    """'&dw_tag_dom ()' -> 'dw_tag_dom' ; '&elfsym_stt_dom (machine)' -> ('elfsym_stt_dom', machine value)"""
    e = unwrap(e)
    if isinstance(e, dict) and e.get("k") == "un" and e.get("op") == "&":
        e = unwrap(e["e"])
    if isinstance(e, dict) and e.get("k") == "call" and e.get("fn"):
        args = tuple(evalint(a, binding or {}) for a in e.get("a", []))
        return (e["f"], args)
    if isinstance(e, dict) and e.get("k") == "ref" and e.get("d") == "global":
        return (e["q"], ())
    return None


_SEV = {}


def _stringer_eval(prog):
    from cxxobj import CxxEvaluator
    if id(prog) not in _SEV:
        ev = CxxEvaluator({}, {}, prog=prog)
        ev._brev = {c["n"]: ("enum", c["n"], c["v"]) for e in prog.enums.values() if e["q"] == "brevity" for c in e["consts"]}
        if set(ev._brev) < {"full", "brief"}:
            raise Broken("enum brevity vanished")
        _SEV[id(prog)] = ev
    return _SEV[id(prog)]


def writer_tables(prog):
    """dom function name -> (prefix, {value: full name}) for every dw_simple_dom"""
    out = {}
    for f in prog.funcs.values():
        if not f["n"].endswith("_dom") or f.get("cls"):
            continue
        sl = [v for x in walk(f.get("body")) if x.get("k") == "decl" for v in x["vars"] if v.get("static")]
        if len(sl) != 1:
            continue
        i = unwrap(sl[0].get("init"))
        if not (isinstance(i, dict) and i.get("k") in ("ctor", "ilist") and "dw_simple_dom" in (i.get("c") or i.get("t") or "")):
            continue
        prefix = strval(i["a"][0])
        sref = unwrap(i["a"][1])
        if not (isinstance(sref, dict) and sref.get("d") == "func"):
            raise Broken("%s: stringer is not a named function" % f["q"])
        sf = prog.funcs.get(sref["fid"])
        if sf is None:
            raise Broken("stringer %s has no body" % sref["q"])
        # the table is read off by interpreting the stringer (with `abbreviate`) on every integer constant that occurs in it
        # - case labels, operands of comparisons - in full and in brief form: any spelling (switch, if-chain, lookup) gives the
        # same table
        cands = set()
        for x in walk(sf["body"]):
            if x.get("k") == "case":
                for lab in (x.get("lo"), x.get("hi")):
                    v = intval(lab) if lab is not None else None
                    if v is not None:
                        cands.add(v)
                lo, hi = (intval(x.get("lo")) if x.get("lo") is not None else None), (intval(x.get("hi")) if x.get("hi") is not None else None)
                if lo is not None and hi is not None and 0 <= hi - lo <= 0x2000:
                    cands.update(range(lo, hi + 1))
            elif x.get("k") == "int":
                cands.add(x["v"])
            elif "iv" in x and x.get("k") in ("ref", "bin", "un", "cast"):
                try:
                    cands.add(int(x["iv"]))
                except Exception:
                    pass
        if not cands:
            raise Broken("stringer %s names no integer constant (unmodelled shape)" % sref["q"])
        ev = _stringer_eval(prog)
        table = {}
        for v in sorted(cands):
            if not (-1 <= v <= 0x7fffffff):
                continue
            names = []
            for b_ in ("full", "brief"):
                try:
                    r = ev.call(sf, None, [v, ev._brev[b_]])
                except Exception as x_:
                    raise Broken("stringer %s cannot be interpreted on %d: %s" % (sref["q"], v, x_))
                names.append(r.cstr() if hasattr(r, "cstr") else None)
            if names[0] is None and names[1] is None:
                continue
            if names[0] is None or names[1] is None or not names[0].endswith(names[1]):
                raise Broken("stringer %s gives inconsistent full/brief names for %d: %s" % (sref["q"], v, names))
            table[v] = (names[0], len(names[0]) - len(names[1]) - 1)
        out[f["q"]] = {"prefix": prefix, "table": table, "stringer": sref["q"], "where": f["l"], "init": i}
    return out


def reader_table(prog):
    """name -> [(value, dom key, loc)] for every add_builtin_constant with a constant(V, &D) argument"""
    R = {}
    n = 0
    for c, binding, loc, f in expand_calls(prog, lambda c: c.get("fn") == "add_builtin_constant"):
        k = unwrap(c["a"][1])
        if not (isinstance(k, dict) and k.get("k") == "ctor" and k.get("c") == "constant" and len(k["a"]) >= 2):
            continue     # type constants etc. (not named numeric constants)
        v = evalint(k["a"][0], binding)
        d = dom_of(k["a"][1], binding)
        name = strval(subst(c["a"][2], binding))
        if v is None or d is None or name is None:
            raise Broken("add_builtin_constant at %s (via %s) has a non-constant value, domain or name (unmodelled shape)" % (c.get("l"), loc))
        R.setdefault(name, []).append((v, d, loc))
        n += 1
    return R, n


def z1(prog):
    inst, findings = [], []
    W = writer_tables(prog)
    R, nreg = reader_table(prog)
    if len(W) < 18:
        raise Broken("only %d dw_simple_dom writer tables found (floor 18)" % len(W))
    total = 0
    for dname, w in sorted(W.items()):
        bad = 0
        for v, (name, plen) in sorted(w["table"].items()):
            total += 1
            key = "Z1:%s:%s" % (dname, name)
            got = [r for r in R.get(name, []) if r[1][0] == dname]
            if not name.startswith(w["prefix"]):
                findings.append({"key": key, "where": w["where"], "msg": "%s renders value %#x as `%s`, which does not carry the domain prefix %s" % (dname, v, name, w["prefix"]), "detail": None})
                bad += 1
                continue
            if plen is not None and name[:plen] != w["prefix"][:plen] and plen != len(w["prefix"]) - 0:
                pass
            if not got:
                findings.append({"key": key, "where": w["where"],
                                 "msg": "constant %#x of %s renders as `%s`, but the vocabulary offers no word `%s` in that domain: the rendering does not read back" % (v, dname, name, name), "detail": None})
                bad += 1
            elif any(r[0] != v for r in got):
                findings.append({"key": key, "where": got[0][2],
                                 "msg": "`%s` renders value %#x but the word `%s` denotes %#x" % (name, v, name, got[0][0]), "detail": None})
                bad += 1
        inst.append(("Z1:W:" + dname, {"constants": len(w["table"]), "prefix": w["prefix"], "mismatches": bad}))
    # reader side: every registered name renders to a word that maps back to the same constant
    nread = 0
    for name, regs in sorted(R.items()):
        for v, d, loc in regs:
            if d[0] not in W:
                continue
            nread += 1
            w = W[d[0]]["table"].get(v)
            key = "Z1:R:%s" % name
            if w is None:
                findings.append({"key": key, "where": loc, "msg": "word `%s` (= %#x in %s) has no rendering: it prints as an unknown constant" % (name, v, d[0]), "detail": None})
                continue
            back = [r for r in R.get(w[0], []) if r[1] == d]
            if not back or back[0][0] != v:
                findings.append({"key": key, "where": loc, "msg": "word `%s` renders as `%s`, which does not denote the same constant" % (name, w[0]), "detail": None})
            if len(regs) > 1 and len({(r[0], r[1]) for r in regs}) > 1:
                findings.append({"key": key, "where": loc, "msg": "word `%s` is registered with different meanings: %s" % (name, regs[:3]), "detail": None})
    inst.append(("Z1:R:registrations", {"named_constant_registrations": nreg, "with_writer_table": nread}))
    # (3) dw_simple_dom::show, interpreted from source on the domain objects the repository constructs (own constructor, own stringer,
    # positive_int_from_mpz, string_or_unknown), prints for every value of every table exactly the table's name: full form = the name,
    # brief form = the name without the family prefix; both integer representations of the value.
    from cxxobj import CxxEvaluator, Obj, OStream, OutOfBounds
    from absint import Thrown
    sh = [f for f in prog.funcs.values() if f["q"].endswith("dw_simple_dom::show") and f.get("body") is not None]
    ctor = [f for f in prog.funcs.values() if f["q"].endswith("dw_simple_dom::dw_simple_dom") and len(f["params"]) == 5]
    if len(sh) != 1 or len(ctor) != 1:
        raise Broken("anchors dw_simple_dom::show / its constructor vanished")
    ev = CxxEvaluator({}, {}, prog=prog)
    brev = {c["n"]: ("enum", c["n"], c["v"]) for e in prog.enums.values() if e["q"] == "brevity" for c in e["consts"]}
    sign = {c["n"]: ("enum", c["n"], c["v"]) for e in prog.enums.values() if e["q"] == "signedness" for c in e["consts"]}
    if set(brev) < {"full", "brief"} or set(sign) < {"sign", "unsign"}:
        raise Broken("enums brevity / signedness vanished")
    n_show = 0
    for dname, w in sorted(W.items()):
        try:
            dom = ev.construct(ctor[0], Obj(ctor[0]["cls"]), [ev.eval(a, {}, None) for a in w["init"]["a"]])
        except (OutOfBounds, Thrown) as x:
            raise Broken("cannot construct the domain object of %s: %s" % (dname, x))
        bad = None
        for v, (name, plen) in sorted(w["table"].items()):
            if name is None:
                continue
            for sg in ("unsign", "sign"):
                for b, want in (("full", name), ("brief", name[plen + 1:])):
                    m = Obj("mpz_class")
                    m.m_u, m.m_i, m.m_sign = v, v, sign[sg]
                    o = OStream()
                    try:
                        ev.call(sh[0], dom, [m, o, brev[b]])
                        got = o.text()
                    except OutOfBounds as x:
                        got = "<memory error: %s>" % x
                    except Thrown as x:
                        got = "<exception: %s>" % x
                    n_show += 1
                    if got != want and bad is None:
                        bad = "%s (value %d) renders in %s form as `%s`" % (name, v, b, got)
        key = "Z1:show:" + dname
        inst.append((key, {"names": len(w["table"])}))
        if bad:
            findings.append({"key": key, "where": "libzwerg/" + sh[0]["l"],
                             "msg": "dw_simple_dom::show does not print the table entry: %s; the text does not read back as the constant" % bad, "detail": None})
    inst.append(("Z1:show", {"renderings_interpreted": n_show}))
    if total < 500:
        raise Broken("only %d named constants in writer tables (floor 500)" % total)
    return inst, findings, total


# ---------------------------------------------------------------------------
# Z2 / Z3: brief string writer vs lexer reader

def _chr_of(e):
    e = unwrap(e)
    if isinstance(e, dict):
        if e.get("k") in ("chr", "int"):
            return e["v"] & 0xff
        if "iv" in e:
            return int(e["iv"]) & 0xff
    return None


def lexer_string_rules():
    import os
    from zw import REPO
    txt = open(os.path.join(REPO, "libzwerg/lexer.ll")).read()
    rules = txt.split("\n%%")[1]
    pats = re.findall(r'(?m)^<STRING>(\S+)', rules)
    return pats


def reader_escape_table(prog):
    """what the scanner appends for `\\c` inside a (non-raw) string literal, for every byte c: the action of the single-character
    escape rule interpreted from source (helpers and locals are transparent)"""
    import scanner
    from cxxobj import StdStr, OutOfBounds
    conds, rs = scanner.rules()
    cand = [r for r in rs if r[0] == "STRING" and r[1].startswith('"\\\\"(.')]
    if len(cand) != 1:
        raise Broken("single-character escape rule of <STRING> not found exactly once in lexer.ll (%d)" % len(cand))
    rule = cand[0]
    subs = []
    ev = scanner.make_evaluator(prog, subs)
    table = {}
    default_self = True
    for c in range(256):
        f = scanner.new_fmtlit(prog, ev)
        try:
            r = scanner.run(prog, ev, rule, bytes([0x5c, c]), f, conds)
        except OutOfBounds as x:
            raise Broken("the escape action cannot be evaluated for byte %d: %s" % (c, x))
        if r["threw"] or r["token"] is not None or r["state"] is not None or subs:
            raise Broken("the escape action does something else than appending for byte %d (unmodelled)" % c)
        out = f.str.b
        if len(out) == 0:
            table[c] = None          # swallowed (line continuation)
        elif len(out) == 1 and out[0] == c:
            pass                     # stands for itself
        elif len(out) == 1:
            table[c] = out[0]
        else:
            raise Broken("escape `\\%s` appends %d bytes" % (chr(c), len(out)))
    pats = lexer_string_rules()
    has_oct = any(p.startswith('"\\\\"[0-3]') for p in pats)
    has_hex = any(p.startswith('"\\\\x"{HEX}{HEX}') for p in pats)
    specials = set()
    for p in pats:
        m = re.match(r'"((?:\\.|[^"\\])+)"', p)
        if m:
            s_ = m.group(1).replace('\\\\', '\\').replace('\\"', '"')
            specials.add(s_[0])
    return table, default_self, has_oct, has_hex, specials, "lexer.ll:%d" % rule[2]


def z2(prog):
    """brief rendering of strings reads back as the same bytes: dumper::dump_charp interpreted from source (std::ostream with
    hex/setw/setfill modelled) on every single byte 1..255 and 0, on every byte followed by `1`, `a`, `s`, `(` and on a few longer
    strings; the text it writes is handed to the simulated scanner (flexsim: rule selection from lexer.ll's patterns, actions
    interpreted) and must come back as one string literal holding exactly the original bytes."""
    import flexsim
    from cxxobj import CxxEvaluator, Obj, OStream, Ptr, OutOfBounds
    from absint import Thrown
    inst, findings = [], []
    dc = prog.func_opt("dumper::dump_charp")
    if dc is None:
        raise Broken("anchor dumper::dump_charp vanished")
    fmt = {c["n"]: ("enum", c["n"], c["v"]) for e in prog.enums.values() if e["q"] == "dumper::format" for c in e["consts"]}
    if "brief" not in fmt:
        raise Broken("enum dumper::format vanished")
    ev = CxxEvaluator({"ctor:ios_flag_saver": lambda ev_, o, a: None,
                       "isprint": lambda ev_, o, a: 1 if 32 <= int(a[0]) < 127 else 0}, {}, prog=prog)
    sc = flexsim.Scanner(prog)
    where = "dwgrep/" + dc["l"]

    def written(bs):
        o = OStream()
        cells = [x - 256 if x >= 128 else x for x in bs] + [0]
        ev.steps = 0
        ev.call(dc, Obj("dumper"), [o, Ptr(cells, 0), len(bs), fmt["brief"]])
        return o.text().encode("latin-1")

    def read(text):
        try:
            toks, _ = sc.tokens(text)
        except flexsim.ScanError as x:
            return "scan error: %s" % x
        if [t[0] for t in toks] != ["TOK_LIT_STR", "TOK_EOF"]:
            return "tokens %s" % [t[0] for t in toks]
        kids = toks[0][1][2]
        if not kids:
            return b""
        if len(kids) == 1 and not kids[0][2] and kids[0][0] != "CAT":
            return kids[0][1]
        return "a format string with %d parts" % len(kids)
    groups = {"single": [bytes([b]) for b in range(256)],
              "followed": [bytes([b]) + f for b in list(range(0, 48)) + [34, 37, 92, 127, 128, 255] for f in (b"1", b"a", b"s", b"(", b"7")],
              "longer": [b"", b"a%sb", b'say "hi"', b"100%", b"%(1%)", b"\\n", b"tab\there", b"\x001", bytes(range(1, 40)), b"\xff\x00\x7f0"]}
    for g, strs in sorted(groups.items()):
        key = "Z2:" + g
        bad = None
        for bs in strs:
            try:
                text = written(bs)
            except OutOfBounds as x:
                bad = bad or "rendering %r reads or writes out of bounds: %s" % (bs, x)
                continue
            except Thrown as x:
                bad = bad or "rendering %r raises %s" % (bs, x)
                continue
            got = read(text)
            if got != bs and bad is None:
                bad = "the bytes %r are printed as %s, which reads back as %s" % (bs, text.decode("latin-1"), got if isinstance(got, str) else repr(got))
        inst.append((key, {"strings": len(strs)}))
        if bad:
            findings.append({"key": key, "where": where,
                             "msg": "brief string rendering does not read back as the same bytes: %s (different values may print alike)" % bad, "detail": None})
    return inst, findings


def z3(prog):
    """hex output with setw(n) has setfill('0') in the same full-expression (dumpers of the CLI)"""
    inst, findings = [], []
    n = 0
    for f in prog.funcs.values():
        if not f["q"].startswith("dumper::"):
            continue
        # full expressions: statements that are << chains
        for st in walk(f.get("body")):
            if st.get("k") != "call" or st.get("op") != "<<":
                continue
            # only outermost << (its parent is not a << call): detect by checking it contains setw and hex
            names = set()
            for y in walk_nolambda(st):
                if y.get("k") == "call" and y.get("fn") in ("setw", "setfill"):
                    names.add(y["fn"])
                if y.get("k") == "ref" and y.get("d") == "func" and y.get("n") in ("hex",):
                    names.add("hex")
            if "setw" in names and "hex" in names:
                n += 1
                key = "Z3:%s@%s" % (f["q"], st["l"])
                inst.append((key, {"has_setfill": "setfill" in names}))
                if "setfill" not in names:
                    findings.append({"key": "Z3:%s" % f["q"], "where": st["l"],
                                     "msg": "%s prints a hexadecimal field with setw() but without setfill('0'): small values are space padded (`\\x 1`) and do not read back" % f["q"],
                                     "detail": None})
    # de-duplicate nested << chains: keep one finding per function/line
    seen, uniq = set(), []
    for x in findings:
        k = (x["key"], x["where"])
        if k not in seen:
            seen.add(k)
            uniq.append(x)
    if n < 1:
        raise Broken("no hex field output found in the dumpers (anchor vanished)")
    return inst, uniq


# ---------------------------------------------------------------------------
# X1: operand decoding of location expression operations covers DWARF 5

# Frozen from DWARF 5 section 7.7.1 (table 7.9) plus the GNU extensions libdw decodes.
# value: (number of operand values dwgrep should expose, first signed?, second signed?).
# Operations whose operand is "size + block" expose the block / nested expression as ONE value.
OP_TABLE = {}
for _n in ("addr", "const1u", "const2u", "const4u", "const8u", "constu", "pick", "plus_uconst", "regx", "piece",
           "deref_size", "xderef_size", "call2", "call4", "call_ref", "addrx", "constx", "convert", "reinterpret",
           "GNU_convert", "GNU_reinterpret", "GNU_parameter_ref", "GNU_addr_index", "GNU_const_index",
           "GNU_variable_value"):
    OP_TABLE["DW_OP_" + _n] = (1, False, False)
for _n in ("const1s", "const2s", "const4s", "const8s", "consts", "fbreg", "skip", "bra"):
    OP_TABLE["DW_OP_" + _n] = (1, True, False)
for _i in range(32):
    OP_TABLE["DW_OP_breg%d" % _i] = (1, True, False)
    OP_TABLE["DW_OP_reg%d" % _i] = (0, False, False)
    OP_TABLE["DW_OP_lit%d" % _i] = (0, False, False)
for _n in ("implicit_value", "entry_value", "GNU_entry_value"):
    OP_TABLE["DW_OP_" + _n] = (1, None, None)        # block / nested expression
OP_TABLE["DW_OP_bregx"] = (2, False, True)
for _n in ("bit_piece", "regval_type", "deref_type", "xderef_type", "GNU_regval_type", "GNU_deref_type"):
    OP_TABLE["DW_OP_" + _n] = (2, False, False)
for _n in ("implicit_pointer", "GNU_implicit_pointer"):
    OP_TABLE["DW_OP_" + _n] = (2, None, True)         # DIE + signed offset
for _n in ("const_type", "GNU_const_type"):
    OP_TABLE["DW_OP_" + _n] = (2, None, None)         # DIE + block
for _n in ("deref", "dup", "drop", "over", "swap", "rot", "xderef", "abs", "and", "div", "minus", "mod", "mul", "neg",
           "not", "or", "plus", "shl", "shr", "shra", "xor", "eq", "ge", "gt", "le", "lt", "ne", "nop",
           "push_object_address", "form_tls_address", "call_frame_cfa", "stack_value", "GNU_push_tls_address",
           "GNU_uninit"):
    OP_TABLE["DW_OP_" + _n] = (0, False, False)
OP_NO_SUMMARY = {"DW_OP_GNU_encoded_addr": "libdw does not decode its operands", "DW_OP_lo_user": "range marker",
                 "DW_OP_hi_user": "range marker"}


def dw_op_enum(prog):
    for e in prog.enums.values():
        if e["file"] == "/usr/include/dwarf.h" and any(c["n"] == "DW_OP_addr" for c in e["consts"]):
            return {c["n"]: c["v"] for c in e["consts"]}
    raise Broken("DW_OP_* enumeration of the system dwarf.h not found")


def x1(prog):
    inst, findings = [], []
    fs = [f for f in prog.funcs.values() if f["q"].startswith("(anonymous namespace)::locexpr_op_values<")]
    if len(fs) != 2:
        raise Broken("expected the two instantiations locexpr_op_values<0>/<1>, found %d" % len(fs))
    f = sorted(fs, key=lambda x: x["q"])[0]
    sw = [x for x in walk_nolambda(f["body"]) if x.get("k") == "switch"]
    if len(sw) != 1:
        raise Broken("locexpr_op_values no longer dispatches with one switch (unmodelled shape)")
    lambdas = {}
    for x in walk_nolambda(f["body"]):
        if x.get("k") == "decl":
            for v in x["vars"]:
                if isinstance(unwrap(v.get("init")), dict) and unwrap(v["init"]).get("k") == "lambda":
                    lambdas[v["id"]] = v["n"]

    def is_null_prod(e):
        e = unwrap(e)
        while isinstance(e, dict) and e.get("k") == "ctor" and len(e["a"]) == 1:
            e = unwrap(e["a"][0])
        return isinstance(e, dict) and e.get("k") == "call" and e.get("f", "").startswith("std::make_unique<") and "null_producer" in e["f"]

    def is_signed(e):
        e = unwrap(e)
        if isinstance(e, dict) and e.get("k") == "call" and e.get("op") == "()" and isinstance(unwrap(e["a"][0]), dict) \
           and lambdas.get(unwrap(e["a"][0]).get("id")) == "signed_cst":
            return True
        if isinstance(e, dict) and e.get("k") in ("ctor", "ilist"):
            return False
        return None

    def classify(ret):
        e = unwrap(ret)
        while isinstance(e, dict) and e.get("k") == "ctor" and len(e["a"]) == 1:
            e = unwrap(e["a"][0])
        if is_null_prod(e):
            return (0, None, None)
        if isinstance(e, dict) and e.get("k") == "call" and e.get("op") == "()":
            nm = lambdas.get(unwrap(e["a"][0]).get("id")) if isinstance(unwrap(e["a"][0]), dict) else None
            if nm == "single_constant":
                return (1, is_signed(e["a"][1]), None)
            if nm == "two_constants":
                return (2, is_signed(e["a"][1]), is_signed(e["a"][2]))
        if isinstance(e, dict) and e.get("k") == "call" and e.get("f", "").startswith("(anonymous namespace)::select<"):
            a, b = e["a"]
            sb = None
            for y in walk_nolambda(b):
                if y.get("k") == "call" and y.get("op") == "()" and isinstance(unwrap(y["a"][0]), dict) and \
                   lambdas.get(unwrap(y["a"][0]).get("id")) == "signed_cst":
                    sb = True
            return ((0 if is_null_prod(a) else 1) + (0 if is_null_prod(b) else 1), None, sb)
        raise Broken("unmodelled return shape in locexpr_op_values at %s" % (ret.get("l") if isinstance(ret, dict) else "?"))
    handled = {}
    default = None
    for labels, stmts in switch_groups(sw[0]):
        rets = [x for s in stmts for x in walk_nolambda(s) if x.get("k") == "return"]
        if not rets:
            raise Broken("case group without return in locexpr_op_values")
        cl = classify(rets[-1]["e"])
        for l in labels:
            if l == "default":
                default = cl
                continue
            lo = intval(l)
            handled[lo] = cl
    # GNU case ranges: `case A ... B` : the reduced AST keeps lo/hi on the CFG side; re-read them here
    for x in walk_nolambda(sw[0]["body"]):
        if x.get("k") == "case" and x.get("hi") is not None:
            lo, hi = intval(x["lo"]), intval(x["hi"])
            for v in range(lo, hi + 1):
                handled.setdefault(v, handled.get(lo))
    if default is None or default[0] != 0:
        raise Broken("default of locexpr_op_values is no longer the null producer")
    ops = dw_op_enum(prog)
    n = 0
    for name, val in sorted(ops.items(), key=lambda kv: kv[1]):
        if name in OP_NO_SUMMARY:
            continue
        exp = OP_TABLE.get(name)
        if exp is None:
            raise Broken("system dwarf.h defines %s, for which the checker has no operand-table row" % name)
        got = handled.get(val, default)
        n += 1
        key = "X1:" + name
        if exp[0] == 0 and got[0] == 0:
            inst.append((key, {"operands": 0}))
            continue
        ok = got[0] == exp[0]
        sign_ok = True
        if ok and exp[1] is not None and got[1] is not None and exp[1] != got[1]:
            sign_ok = False
        if ok and exp[2] is not None and got[2] is not None and bool(exp[2]) != bool(got[2]):
            sign_ok = False
        inst.append((key, {"expected": exp, "decoded": got}))
        if not ok:
            findings.append({"key": key, "where": "libzwerg/atval.cc:%s" % f["l"].split(":")[-1],
                             "msg": "%s (0x%x) has %d operand value(s) per the DWARF 5 operand table but `value` on it yields %d%s" % (
                                 name, val, exp[0], got[0], " (falls into the default: no operands)" if val not in handled else ""),
                             "detail": None})
        elif not sign_ok:
            findings.append({"key": key, "where": "libzwerg/atval.cc:%s" % f["l"].split(":")[-1],
                             "msg": "%s decodes an operand with the wrong signedness (expected signed=%s/%s, decoded %s/%s)" % (name, exp[1], exp[2], got[1], got[2]),
                             "detail": None})
    if n < 150:
        raise Broken("fewer DW_OP enumerators than expected (%d)" % n)
    return inst, findings


def u1(prog):
    """erase-remove idiom: the iterator returned by std::remove/remove_if/unique is erased up to end()"""
    inst, findings = [], []
    n = 0
    for f in prog.funcs.values():
        rel = prog.rel(f["file"])
        if not (rel.startswith("libzwerg/") or rel.startswith("dwgrep/")) or "/test-" in rel:
            continue
        body = f.get("body")
        if body is None:
            continue
        removed = {}
        for x in walk(body):
            if x.get("k") == "decl":
                for v in x["vars"]:
                    i = unwrap(v.get("init"))
                    if isinstance(i, dict) and i.get("k") == "call" and i.get("f", "").startswith(("std::remove_if<", "std::remove<", "std::unique<")):
                        removed[v["id"]] = v
        for c in calls(body):
            if c.get("fn") != "erase":
                continue
            args = c.get("a", [])
            first = unwrap(args[0]) if args else None
            while isinstance(first, dict) and first.get("k") == "ctor" and len(first.get("a", [])) == 1 and "__normal_iterator" in first.get("c", ""):
                first = unwrap(first["a"][0])       # iterator -> const_iterator conversion
            inline = isinstance(first, dict) and first.get("k") == "call" and first.get("f", "").startswith(("std::remove_if<", "std::remove<", "std::unique<"))
            viavar = isinstance(first, dict) and first.get("k") == "ref" and first.get("id") in removed
            if not (inline or viavar):
                continue
            n += 1
            key = "U1:%s@%s" % (f["q"], c.get("l"))
            inst.append((key, {"erase_arguments": len(args)}))
            if len(args) < 2:
                findings.append({"key": "U1:%s" % f["q"], "where": c.get("l"),
                                 "msg": "%s erases only ONE element at the iterator returned by std::remove_if/remove/unique: the stale tail left by the algorithm survives (e.g. a statement stays in the tree twice after dropping NOPs)" % f["q"],
                                 "detail": None})
    if n < 1:
        raise Broken("no erase-remove site found (anchor tree::simplify vanished)")
    return inst, findings


def u2(prog):
    """a container that is searched with a binary search in the same function that appends to it in discovery order is not
    kept sorted: the search then misses elements (e.g. a seen-list of abbreviation tables yields shared tables again)"""
    inst, findings = [], []
    n = 0
    from zw import field_chain
    for f in prog.funcs.values():
        rel = prog.rel(f["file"])
        if not rel.startswith("libzwerg/") or "/test-" in rel:
            continue
        body = f.get("body")
        if body is None:
            continue
        searches = []
        for c in calls(body):
            if c.get("f", "").startswith(("std::binary_search<", "std::lower_bound<", "std::upper_bound<", "std::equal_range<")) and len(c["a"]) >= 2:
                b = unwrap(c["a"][0])
                while isinstance(b, dict) and b.get("k") == "ctor" and len(b.get("a", [])) == 1:
                    b = unwrap(b["a"][0])
                if isinstance(b, dict) and b.get("k") == "call" and b.get("fn") in ("begin", "cbegin") and b.get("obj") is not None:
                    ch = field_chain(b["obj"])
                    if ch:
                        searches.append((c, ch))
        if not searches:
            continue
        for c, ch in searches:
            n += 1
            appends = [x for x in calls(body) if x.get("fn") in ("push_back", "emplace_back") and x.get("obj") is not None and field_chain(x["obj"]) == ch]
            sorts = [x for x in calls(body) if x.get("f", "").startswith(("std::sort<", "std::stable_sort<")) and any(field_chain(y.get("obj")) == ch for y in walk(x) if y.get("k") == "call" and y.get("fn") in ("begin",))]
            ordered_ins = [x for x in calls(body) if x.get("fn") == "insert" and x.get("obj") is not None and field_chain(x["obj"]) == ch]
            key = "U2:%s@%s" % (f["q"], c["l"])
            inst.append((key, {"container": ".".join(ch[1]) or ch[0], "appends_in_same_function": len(appends), "sorts": len(sorts)}))
            if appends and not sorts:
                findings.append({"key": "U2:%s" % f["q"], "where": c["l"],
                                 "msg": "%s binary-searches `%s` and appends to it with %s in the same function without keeping it sorted: elements appended out of order are not found again" % (f["q"], ".".join(ch[1]) or ch[0], appends[0]["fn"]),
                                 "detail": None})
    if n < 2:
        raise Broken("fewer binary searches than confirmed by hand (2)")
    return inst, findings


# ---------------------------------------------------------------------------
# Z4: integers render in their domain's radix so that the text reads back as an equal value of the same domain

def z4(prog, tier="quick"):
    """The `show` members of the decimal, hex, octal and binary constant domains (constant.cc) and the mpz_class inserter and
    comparison/negation operators they use (int.cc) interpreted from source, with std::ostream modelled (radix, showbase), on every
    magnitude 0, 2^k and 2^(k+1)-1 for k = 0..63, positive (unsigned and signed representation) and negative.  The renderers look at a
    value only through its sign and its binary digits, so one all-ones and one single-one pattern per bit length exercise every digit
    count.  The text is read back with the literal syntax of the lexer (optional '-', 0x / 0b / leading 0 / decimal)."""
    from cxxobj import CxxEvaluator, Obj, OStream, OutOfBounds, StdStr
    from absint import Thrown
    inst, findings = [], []
    shows = [f for f in prog.funcs.values() if f["n"] == "show" and prog.rel(f["file"]) == "libzwerg/constant.cc" and f.get("body") is not None and len(f["params"]) == 3]
    doms = {}
    ev = CxxEvaluator({}, {}, prog=prog)        # ios_flag_saver is interpreted: its constructor saves, its destructor restores the stream's flags
    for f in shows:
        if f.get("cls") == "numeric_constant_dom_t":
            doms["dec"] = f
            continue
        # the unnamed domain structs: identify each by what its name() returns
        sib = [g for g in prog.funcs.values() if g["n"] == "name" and g.get("cls") == f.get("cls") and g["file"] == f["file"] and g.get("body") is not None and
               int(g["l"].split(":")[1]) > int(f["l"].split(":")[1])]
        if not sib:
            continue
        g = min(sib, key=lambda g_: int(g_["l"].split(":")[1]))
        r = ev.call(g, Obj("dom"), [])
        nm = r.cstr() if hasattr(r, "cstr") else None
        if nm in ("hex", "oct", "bin"):
            doms[nm] = f
    if set(doms) != {"dec", "hex", "oct", "bin"}:
        raise Broken("cannot identify the dec/hex/oct/bin constant domains in constant.cc (found %s)" % sorted(doms))
    full = None
    for e in prog.enums.values():
        if e["q"] == "brevity":
            full = {c["n"]: ("enum", c["n"], c["v"]) for c in e["consts"]}
    if not full:
        raise Broken("enum brevity vanished")

    def mpz(n):
        """both representations libzwerg can hold for the integer n"""
        out = []
        if n >= 0:
            v = Obj("mpz_class")
            v.m_u, v.m_i, v.m_sign = n, n - (1 << 64) if n >= 1 << 63 else n, ("enum", "unsign", 0)
            out.append(v)
        if -(1 << 63) <= n < (1 << 63):
            v = Obj("mpz_class")
            v.m_u, v.m_i, v.m_sign = n & ((1 << 64) - 1), n, ("enum", "sign", 1)
            out.append(v)
        return out
    sign_e = None
    for e in prog.enums.values():
        if e["q"] == "signedness":
            sign_e = {c["n"]: ("enum", c["n"], c["v"]) for c in e["consts"]}
    if sign_e:
        def mpz(n, _s=sign_e):
            out = []
            if n >= 0:
                v = Obj("mpz_class")
                v.m_u, v.m_i, v.m_sign = n, n - (1 << 64) if n >= 1 << 63 else n, _s["unsign"]
                out.append(v)
            if -(1 << 63) <= n < (1 << 63):
                v = Obj("mpz_class")
                v.m_u, v.m_i, v.m_sign = n & ((1 << 64) - 1), n, _s["sign"]
                out.append(v)
            return out
    mags = {0}
    for k in range(64):
        mags |= {1 << k, (1 << (k + 1)) - 1}
    if tier != "thorough":
        mags = {m for m in mags if m < 1 << 9 or m >= 1 << 30}
    values = sorted(mags | {-m for m in mags if m <= 1 << 63})

    def read_back(text):
        """(value, domain) of the text as an integer literal, or None"""
        import re
        m = re.fullmatch(r"(-?)(0[xX][0-9a-fA-F]+|0[bB][01]+|0[0-7]*|[1-9][0-9]*)", text)
        if not m:
            return None
        body = m.group(2)
        if body[:2].lower() == "0x":
            v, d = int(body[2:], 16), "hex"
        elif body[:2].lower() == "0b":
            v, d = int(body[2:], 2), "bin"
        elif body != "0" and body[0] == "0":
            v, d = int(body, 8), "oct"
        else:
            v, d = int(body), "dec"
        return (-v if m.group(1) else v), d
    n_eval = 0
    for dom, f in sorted(doms.items()):
        key = "Z4:" + dom
        bad = []
        for n in values:
            for v in mpz(n):
                o = OStream()
                try:
                    ev.call(f, Obj("dom"), [v, o, full["full"]])
                except OutOfBounds as x:
                    bad.append((n, "rendering %d: %s (memory error)" % (n, x)))
                    continue
                except Thrown as x:
                    bad.append((n, "rendering %d raises an error (%s)" % (n, x)))
                    continue
                n_eval += 1
                text = o.text()
                if (o.base != 10 or o.showbase) and not any(b_[0] == "flags" for b_ in bad):
                    bad.append(("flags", "after rendering %d the stream is left in base %d%s: the next integer written to the same stream (the following element of a "
                                         "sequence rendered with %%s) comes out in this radix, whatever its own domain" % (n, o.base, " with showbase" if o.showbase else "")))
                rb = read_back(text)
                if rb is None:
                    bad.append((n, "%d renders as `%s`, which is not an integer literal" % (n, text)))
                elif rb[0] != n:
                    bad.append((n, "%d (%#x) renders as `%s`, which reads back as %d" % (n, n & ((1 << 64) - 1), text, rb[0])))
                elif rb[1] != dom:
                    bad.append((n, "%d renders as `%s`, which reads back in the %s domain" % (n, text, rb[1])))
        inst.append((key, {"values": len(values)}))
        leak = [b for b in bad if b[0] == "flags"]
        bad = [b for b in bad if b[0] != "flags"]
        if leak:
            findings.append({"key": key + ":flags", "where": "libzwerg/" + f["l"], "msg": "%s domain: %s" % (dom, leak[0][1]), "detail": None})
        zero = [b for b in bad if b[0] == 0]
        other = [b for b in bad if b[0] != 0]
        if zero:
            findings.append({"key": key + ":zero", "where": "libzwerg/" + f["l"], "msg": "%s domain: %s; reading the text back gives a constant of another domain (`0x0`, `00`, `0b0` all print `0`)" % (dom, zero[0][1]), "detail": None})
        if other:
            findings.append({"key": key, "where": "libzwerg/" + f["l"], "msg": "%s domain: %s (%d of %d values affected)" % (dom, other[0][1], len({b[0] for b in other}), len(values)), "detail": None})
    inst.append(("Z4:evaluations", {"n": n_eval}))
    return inst, findings


def z5(prog):
    """`value` (and therefore `%d`, which the scanner expands to it - N1) yields the same number in the decimal domain: op_value_cst::operate
    interpreted from source on constants of abstract domains of every kind (arithmetic or not, `plain` or not - the DWARF address and
    offset domains are plain but render in hex), several values incl. 0 and 2^64-1: the result has the value of the operand, the domain
    dec_constant_dom, and is numbered 0."""
    from cxxobj import CxxEvaluator, Obj, Sym, OutOfBounds
    from absint import Thrown
    inst, findings = [], []
    f = prog.func_opt("op_value_cst::operate")
    if f is None or f.get("body") is None:
        raise Broken("anchor op_value_cst::operate vanished")
    sign = {c["n"]: ("enum", c["n"], c["v"]) for e in prog.enums.values() if e["q"] == "signedness" for c in e["consts"]}
    if set(sign) < {"sign", "unsign"}:
        raise Broken("enum signedness vanished")

    class D:
        def __init__(self, name, arith, plain):
            self.name, self.arith, self.plain = name, arith, plain
            self.addr = id(self)

        def __repr__(self):
            return self.name
    DEC = D("dec_constant_dom", True, True)
    doms = [DEC, D("hex literal domain", True, False), D("Dwarf_Address (plain, renders in hex)", True, True), D("DW_TAG_ (named)", False, False),
            D("plain non-arithmetic", False, True)]
    hooks = {
        "zw_cdom::plain": lambda ev, o, a: o.plain, "constant_dom::plain": lambda ev, o, a: o.plain,
        "zw_cdom::safe_arith": lambda ev, o, a: o.arith, "constant_dom::safe_arith": lambda ev, o, a: o.arith,
    }
    ev = CxxEvaluator(hooks, {"dec_constant_dom": DEC}, prog=prog)
    brev = {c["n"]: ("enum", c["n"], c["v"]) for e in prog.enums.values() if e["q"] == "brevity" for c in e["consts"]}
    key = "Z5:value"
    bad = None
    n = 0
    for d in doms:
        for v in (0, 1, 0x4004b2, (1 << 64) - 1):
            c = Obj("constant")
            m = Obj("mpz_class")
            m.m_u, m.m_i, m.m_sign = v, v if v < (1 << 63) else v - (1 << 64), sign["unsign"]
            c.m_value, c.m_dom, c.m_brv = m, d, brev.get("full")
            a = Obj("value_cst")
            a.m_cst, a.m_pos = c, 5
            try:
                r = ev.call(f, Obj("op_value_cst"), [a])
            except (OutOfBounds, Thrown) as x:
                raise Broken("op_value_cst::operate cannot be evaluated: %s" % x)
            n += 1
            rc = getattr(r, "m_cst", None)
            rv = getattr(getattr(rc, "m_value", None), "m_u", None)
            rd = getattr(rc, "m_dom", None)
            if (rv != v or rd is not DEC or getattr(r, "m_pos", None) != 0) and bad is None:
                bad = "`value` of %d in the domain %r yields %s in the domain %r numbered %s; expected %d in the decimal domain numbered 0" % (v, d, rv, rd, getattr(r, "m_pos", None), v)
    inst.append((key, {"evaluations": n}))
    if bad:
        findings.append({"key": key, "where": "libzwerg/" + f["l"],
                         "msg": bad + " (`%d` is `%( value %)`: the text would not be a decimal literal that reads back as an equal constant of the decimal domain)", "detail": None})
    return inst, findings


def z6(prog):
    """The alias predicates on constants (`C ?TAG_x`, `C ?AT_x`, `C ?FORM_x`, `C ?OP_x` and their `!` / long forms) hold exactly when
    `C == DW_TAG_x` (etc.) holds: each pred_*_cst is constructed by its own constructor and its result() interpreted from source on a
    constant of the alias' own domain with the same and with another number, on a constant of another named domain with the same
    number (DW_AT_bit_size and DW_TAG_member are both 13), and on a plain number; the answer must be `yes` only in the first case and
    must agree with constant::operator== (interpreted as well) in every case."""
    from cxxobj import CxxEvaluator, Obj, OutOfBounds
    from absint import Thrown
    inst, findings = [], []
    sign = {c["n"]: ("enum", c["n"], c["v"]) for e in prog.enums.values() if e["q"] == "signedness" for c in e["consts"]}
    brev = {c["n"]: ("enum", c["n"], c["v"]) for e in prog.enums.values() if e["q"] == "brevity" for c in e["consts"]}
    if set(sign) < {"sign", "unsign"}:
        raise Broken("enum signedness vanished")

    class D:
        def __init__(self, name, arith, plain, serial):
            self.name, self.arith, self.plain = name, arith, plain
            self.addr = 0x9000 + serial * 0x40

        def __repr__(self):
            return self.name
    DEC = D("dec_constant_dom", True, True, 0)
    named = {"dw_tag_dom": D("DW_TAG_", False, False, 1), "dw_attr_dom": D("DW_AT_", False, False, 2), "dw_form_dom": D("DW_FORM_", False, False, 3),
             "dw_locexpr_opcode_dom": D("DW_OP_", False, False, 4)}
    hooks = {
        "zw_cdom::plain": lambda ev, o, a: o.plain, "constant_dom::plain": lambda ev, o, a: o.plain,
        "zw_cdom::safe_arith": lambda ev, o, a: o.arith, "constant_dom::safe_arith": lambda ev, o, a: o.arith,
        "ctor:pred_result": lambda ev, o, a: ("yes" if a[0] else "no") if isinstance(a[0], bool) else a[0],
        "zw_cdom::most_enclosing": lambda ev, o, a: o, "constant_dom::most_enclosing": lambda ev, o, a: o,
        "ctor:std::less<*": lambda ev, o, a: (lambda ev2, args: (0 if args[0] is None else args[0].addr) < (0 if args[1] is None else args[1].addr)),
    }
    for n_, d in named.items():
        hooks[n_] = (lambda d: lambda ev, o, a: d)(d)
    ev = CxxEvaluator(hooks, {"dec_constant_dom": DEC}, prog=prog)
    eqf = [f for f in prog.funcs.values() if f["q"] == "constant::operator==" and f.get("body") is not None]
    if len(eqf) != 1:
        raise Broken("anchor constant::operator== vanished")

    def mkc(v, d):
        c = Obj("constant")
        m = Obj("mpz_class")
        m.m_u, m.m_i, m.m_sign = v, v, sign["unsign"]
        c.m_value, c.m_dom, c.m_brv = m, d, brev.get("full")
        return c
    rows = (("pred_tag_cst", "dw_tag_dom", "?TAG_"), ("pred_atname_cst", "dw_attr_dom", "?AT_"), ("pred_form_cst", "dw_form_dom", "?FORM_"), ("pred_op_cst", "dw_locexpr_opcode_dom", "?OP_"))
    for cls, domfn, word in rows:
        res = [f for f in prog.funcs.values() if f["q"] == cls + "::result" and f.get("body") is not None and len(f["params"]) == 1 and "value_cst" in f["params"][0]["t"]]
        if len(res) != 1:
            raise Broken("anchor %s::result (value_cst &) vanished" % cls)
        key = "Z6:" + cls
        bad = None
        n = 0
        try:
            own = named[domfn]
            other = [d for k_, d in named.items() if k_ != domfn][0]
            for code in (1, 13):
                pred = ev.new_object(cls, [code])
                if getattr(getattr(pred, "m_const", None), "m_dom", None) is not own:
                    raise Broken("%s does not keep a constant of %s" % (cls, own))
                for what, operand, want in (("the same constant", mkc(code, own), "yes"), ("another constant of the same family", mkc(code + 1, own), "no"),
                                            ("a constant of another family with the same number", mkc(code, other), "no"), ("the plain number", mkc(code, DEC), None)):
                    a = Obj("value_cst")
                    a.m_cst, a.m_pos = operand, 0
                    ev.steps = 0
                    r = ev.call(res[0], pred, [a])
                    got = r[1] if isinstance(r, tuple) else r
                    if isinstance(got, bool):
                        got = "yes" if got else "no"
                    eq = ev.call(eqf[0], pred.m_const, [operand])
                    n += 1
                    if want is not None and got != want and bad is None:
                        bad = "`C %sx` with C = %s (%s %d) answers `%s`; expected `%s`" % (word, what, operand.m_dom, code if "another constant of the same" not in what else code + 1, got, want)
                    elif (got == "yes") != bool(eq) and bad is None:
                        bad = "`C %sx` with C = %s answers `%s` but `C == DW_..x` is %s: the alias no longer denotes the comparison with its named constant" % (word, what, got, bool(eq))
        except (OutOfBounds, Thrown) as x:
            raise Broken("%s cannot be evaluated: %s" % (cls, x))
        inst.append((key, {"evaluations": n}))
        if bad:
            findings.append({"key": key, "where": "libzwerg/" + res[0]["l"], "msg": bad, "detail": None})
    return inst, findings
